#!/venv/bin/python
"""Generates MANIFEST.json from the table below (keeps it valid by construction)."""
import json, os, sys
HERE = os.path.dirname(os.path.abspath(__file__))
props = [json.loads(l) for l in open(os.path.join(HERE, "properties.jsonl"))]
ids = [p["id"] for p in props]
from manifest_table import CHECKS, NOT_APPLICABLE, HOOKS, NOTES  # noqa
checks = []
for pid in ids:
    if pid in CHECKS:
        c = CHECKS[pid]
        checks.append({
            "property_id": pid,
            "quick_cmd": "./check %s --tier quick" % pid,
            "thorough_cmd": "./check %s --tier thorough" % pid,
            "evidence_file": "/verif/evidence/%s.json" % pid,
            "replay_cmd_template": "./check %s --replay {path}" % pid,
            "engine": "nucs-runtime-monitors",
            "level_claimed": {"category": c["level"], "text": c["text"], "design_ref": c["ref"]},
            "level_note": c["note"],
            "technique": c["technique"],
        })
na = [{"property_id": pid, "reason": NOT_APPLICABLE[pid]} for pid in ids if pid not in CHECKS]
m = {
    "version": 1,
    "setup_cmd": "./setup.sh",
    "hooks": HOOKS,
    "engines": [{"name": "nucs-runtime-monitors", "path": "/verif/framework",
                 "serves_properties": [p for p in ids if p in CHECKS],
                 "kind_free_text": "runtime monitoring: interposed monitors under NUMBA_DISABLE_JIT, in-engine probe and API-boundary checkers in compiled mode, bounds sanitizers, schedule shim and fault injection for the process layer; oracles independent of nucs"}],
    "checks": checks,
    "notes": NOTES,
    "not_applicable": na,
}
json.dump(m, open(os.path.join(HERE, "MANIFEST.json"), "w"), indent=1)
import jsonschema
jsonschema.validate(m, json.load(open("/root/.vp/MANIFEST.schema.json")))
print("MANIFEST.json written: %d checks, %d not_applicable" % (len(checks), len(na)))

"""Adapter between the framework's names and the registries of the tree under test (imports nucs)."""
import numpy as np

from nucs.constants import (  # noqa: F401
    MAX, MIN, PROP_CONSISTENCY, PROP_ENTAILMENT, PROP_INCONSISTENCY, STATS_MAX,
)
from nucs.heuristics import heuristics as H
from nucs.problems.problem import Problem
from nucs.propagators import propagators as PP
from nucs.solvers import consistency_algorithms as CA
from nucs.solvers.backtrack_solver import BacktrackSolver

ALG = {
    "and": PP.ALG_AND, "affine_eq": PP.ALG_AFFINE_EQ, "affine_geq": PP.ALG_AFFINE_GEQ,
    "affine_leq": PP.ALG_AFFINE_LEQ, "alldifferent": PP.ALG_ALLDIFFERENT, "count_eq": PP.ALG_COUNT_EQ,
    "dummy": PP.ALG_DUMMY, "element_iv": PP.ALG_ELEMENT_IV, "element_liv": PP.ALG_ELEMENT_LIV,
    "element_lic": PP.ALG_ELEMENT_LIC, "exactly_eq": PP.ALG_EXACTLY_EQ, "exactly_true": PP.ALG_EXACTLY_TRUE,
    "gcc": PP.ALG_GCC, "lexicographic_leq": PP.ALG_LEXICOGRAPHIC_LEQ, "max_eq": PP.ALG_MAX_EQ,
    "max_leq": PP.ALG_MAX_LEQ, "min_eq": PP.ALG_MIN_EQ, "min_geq": PP.ALG_MIN_GEQ,
    "no_sub_cycle": PP.ALG_NO_SUB_CYCLE, "relation": PP.ALG_RELATION, "scc": PP.ALG_SCC,
}
NAME_OF = {}
for _k, _v in ALG.items():
    NAME_OF[_v] = _k
# ALG_MIN_GEQ is registered twice in the pinned tree (indices 17 and 18): both run the same function
for _i, _f in enumerate(PP.COMPUTE_DOMAINS_FCTS):
    if _i not in NAME_OF:
        for _k, _v in ALG.items():
            if PP.COMPUTE_DOMAINS_FCTS[_v] is _f:
                NAME_OF[_i] = _k

CALG = {"bc": CA.CONSISTENCY_ALG_BC, "shaving": CA.CONSISTENCY_ALG_SHAVING}
VH = {
    "first": H.VAR_HEURISTIC_FIRST_NOT_INSTANTIATED, "smallest": H.VAR_HEURISTIC_SMALLEST_DOMAIN,
    "greatest": H.VAR_HEURISTIC_GREATEST_DOMAIN, "max_regret": H.VAR_HEURISTIC_MAX_REGRET,
}
DH = {
    "min": H.DOM_HEURISTIC_MIN_VALUE, "max": H.DOM_HEURISTIC_MAX_VALUE, "split_low": H.DOM_HEURISTIC_SPLIT_LOW,
    "mid": H.DOM_HEURISTIC_MID_VALUE, "min_cost": H.DOM_HEURISTIC_MIN_COST,
}
DEFAULT_CFG = {"calg": "bc", "vh": "first", "dh": "min"}


def build_problem(model):
    p = Problem([tuple(d) for d in model["doms"]], list(model["idx"]), list(model["off"]))
    for vs, name, pr in model["props"]:
        p.add_propagator((list(vs), ALG[name], list(pr)))
    return p


def build_solver(model, cfg=None, problem=None, **kw):
    cfg = dict(DEFAULT_CFG, **(cfg or {}))
    p = problem if problem is not None else build_problem(model)
    args = dict(
        consistency_alg_idx=CALG[cfg["calg"]] if isinstance(cfg["calg"], str) else cfg["calg"],
        var_heuristic_idx=VH[cfg["vh"]] if isinstance(cfg["vh"], str) else cfg["vh"],
        dom_heuristic_idx=DH[cfg["dh"]] if isinstance(cfg["dh"], str) else cfg["dh"],
        log_level="ERROR",
    )
    if cfg.get("costs") is not None:
        if cfg["vh"] in ("max_regret", VH["max_regret"]):
            args["var_heuristic_params"] = cfg["costs"]
        if cfg["dh"] in ("min_cost", DH["min_cost"]):
            args["dom_heuristic_params"] = cfg["costs"]
    if cfg.get("decision") is not None:
        args["decision_domains"] = list(cfg["decision"])
    if cfg.get("height") is not None:
        args["stack_max_height"] = cfg["height"]
    args.update(kw)
    return BacktrackSolver(p, **args)


def run_propagator(name, box, params):
    """One direct call of compute_domains on a copy; returns (status, output box as lists)."""
    d = np.array(box, dtype=np.int32).reshape(-1, 2)
    pa = np.array(params, dtype=np.int32)
    st = PP.COMPUTE_DOMAINS_FCTS[ALG[name]](d, pa)
    return int(st), d.tolist()


def tup(sol):
    return tuple(int(x) for x in sol)

"""Catalogue of the shipped models with definition-level validators (O-def) and independent counts / optima.
Validators know the variable layout of each model (its interface) but re-derive validity from the problem's
definition; reference counts come from own enumerations below or from the literature (OEIS etc.), never from nucs.
"""
import itertools
from functools import lru_cache

QUEENS = [1, 0, 0, 2, 10, 4, 40, 92, 352, 724, 2680]  # OEIS A000170, n = 1..11
LATIN = {1: 1, 2: 2, 3: 12, 4: 576, 5: 161280}  # OEIS A002860
GOLOMB = {3: 3, 4: 6, 5: 11, 6: 17, 7: 25, 8: 34, 9: 44}  # optimal Golomb ruler lengths
MAGIC_SQUARES = {3: 8, 4: 7040}  # all magic squares incl. rotations/reflections (880 * 8 for n = 4)


# ----------------------------------------------------------------------------------------------- validators
def v_queens(n):
    def v(s):
        q = list(s[:n])
        if sorted(q) != list(range(n)):
            return "columns are not a permutation: %r" % q
        if len(set(q[i] + i for i in range(n))) != n or len(set(q[i] - i for i in range(n))) != n:
            return "two queens share a diagonal: %r" % q
        if list(s[n:2 * n]) != [q[i] + i for i in range(n)] or list(s[2 * n:3 * n]) != [q[i] - i for i in range(n)]:
            return "diagonal variables inconsistent with the queens"
        return None

    return v


def _latin(m, n, colors):
    for r in m:
        if sorted(r) != colors:
            return "row %r is not a permutation of the colours" % (r,)
    for j in range(n):
        if sorted(m[i][j] for i in range(n)) != colors:
            return "column %d is not a permutation of the colours" % j
    return None


def v_latin(n):
    def v(s):
        m = [list(s[i * n:(i + 1) * n]) for i in range(n)]
        return _latin(m, n, list(range(n)))

    return v


def v_latin_rc(n, qg5=False, idempotent=False):
    def v(s):
        color = [list(s[i * n:(i + 1) * n]) for i in range(n)]
        row = [list(s[n * n + c * n:n * n + (c + 1) * n]) for c in range(n)]
        col = [list(s[2 * n * n + i * n:2 * n * n + (i + 1) * n]) for i in range(n)]
        w = _latin(color, n, list(range(n)))
        if w:
            return w
        for i in range(n):
            for j in range(n):
                c = color[i][j]
                if row[c][j] != i:
                    return "row model disagrees: color[%d][%d]=%d but row[%d][%d]=%d" % (i, j, c, c, j, row[c][j])
                if col[i][c] != j:
                    return "column model disagrees: color[%d][%d]=%d but column[%d][%d]=%d" % (i, j, c, i, c,
                                                                                               col[i][c])
        if idempotent and any(color[i][i] != i for i in range(n)):
            return "not idempotent"
        if qg5:
            op = lambda a, b: color[a][b]  # noqa: E731
            for a in range(n):
                for b in range(n):
                    if op(op(op(b, a), b), b) != a:
                        return "((b*a)*b)*b != a for a=%d b=%d" % (a, b)
        return None

    return v


def v_magic_square(n):
    def v(s):
        m = [list(s[i * n:(i + 1) * n]) for i in range(n)]
        if sorted(s[:n * n]) != list(range(n * n)):
            return "cells are not 0..n^2-1 exactly once"
        t = (n * n - 1) * n // 2
        sums = [sum(r) for r in m] + [sum(m[i][j] for i in range(n)) for j in range(n)] + [
            sum(m[i][i] for i in range(n)), sum(m[i][n - 1 - i] for i in range(n))]
        if any(x != t for x in sums):
            return "line sums %r differ from %d" % (sums, t)
        return None

    return v


def v_magic_sequence(n):
    def v(s):
        x = list(s[:n])
        for i in range(n):
            if x.count(i) != x[i]:
                return "x[%d]=%d but %d occurs %d times" % (i, x[i], i, x.count(i))
        return None

    return v


def golomb_marks(s, k):
    # dist(0,j) for j=1..k-1 are the first k-1 variables
    return [0] + [int(s[j]) for j in range(k - 1)]


def v_golomb(k):
    def v(s):
        marks = golomb_marks(s, k)
        if any(marks[i] >= marks[i + 1] for i in range(k - 1)):
            return "marks not increasing: %r" % marks
        d = [marks[j] - marks[i] for i in range(k) for j in range(i + 1, k)]
        if len(set(d)) != len(d):
            return "two equal distances in %r" % marks
        if sorted(d) != sorted(int(x) for x in s[:len(d)]):
            return "distance variables %r are not the pairwise distances of %r" % (list(s), marks)
        return None

    return v


def v_bibd(v_, b, r, k, l):
    def v(s):
        m = [list(s[i * b:(i + 1) * b]) for i in range(v_)]
        if any(x not in (0, 1) for row in m for x in row):
            return "non boolean cell"
        if any(sum(row) != r for row in m):
            return "a row does not have %d ones" % r
        if any(sum(m[i][j] for i in range(v_)) != k for j in range(b)):
            return "a column does not have %d ones" % k
        for i1 in range(v_):
            for i2 in range(i1 + 1, v_):
                if sum(m[i1][j] * m[i2][j] for j in range(b)) != l:
                    return "rows %d and %d have scalar product != %d" % (i1, i2, l)
        return None

    return v


def v_schur(n):
    def v(s):
        col = []
        for x in range(n):
            t = list(s[3 * x:3 * x + 3])
            if sorted(t) != [0, 0, 1]:
                return "ball %d is not in exactly one box: %r" % (x + 1, t)
            col.append(t.index(1))
        for x in range(1, n + 1):
            for y in range(x, n + 1):
                z = x + y
                if z <= n and col[x - 1] == col[y - 1] == col[z - 1]:
                    return "%d + %d = %d all in box %d" % (x, y, z, col[x - 1])
        return None

    return v


def v_tournament(n):
    weeks, periods = n - 1, n // 2

    def v(s):
        def team(p, w, sl):
            return int(s[p * (weeks * 2) + w * 2 + sl])

        pairs = set()
        for w in range(weeks):
            t = [team(p, w, sl) for p in range(periods) for sl in range(2)]
            if sorted(t) != list(range(n)):
                return "week %d: teams %r do not each play once" % (w, t)
            for p in range(periods):
                a, b = team(p, w, 0), team(p, w, 1)
                pairs.add((min(a, b), max(a, b)))
        if len(pairs) != n * (n - 1) // 2:
            return "only %d distinct pairings" % len(pairs)
        for p in range(periods):
            t = [team(p, w, sl) for w in range(weeks) for sl in range(2)]
            if any(t.count(x) > 2 for x in range(n)):
                return "period %d: a team plays more than twice" % p
        return None

    return v


def v_knapsack(weights, volumes, capacity):
    n = len(weights)

    def v(s):
        x = list(s[:n])
        if any(b not in (0, 1) for b in x):
            return "non boolean choice"
        if sum(b * vol for b, vol in zip(x, volumes)) > capacity:
            return "volume exceeds capacity"
        if sum(b * w for b, w in zip(x, weights)) != s[n]:
            return "weight variable %d != %d" % (s[n], sum(b * w for b, w in zip(x, weights)))
        return None

    return v


def knapsack_opt(weights, volumes, capacity):
    best = {0: 0}
    for w, vol in zip(weights, volumes):
        nb = dict(best)
        for used, val in best.items():
            u2 = used + vol
            if u2 <= capacity and nb.get(u2, -1) < val + w:
                nb[u2] = val + w
        best = nb
    return max(best.values())


def v_circuit(n):
    def v(s):
        succ = list(s[:n])
        if sorted(succ) != list(range(n)):
            return "successors %r are not a permutation" % succ
        c, seen = 0, 0
        for _ in range(n):
            c = succ[c]
            seen += 1
            if c == 0:
                break
        if seen != n or c != 0:
            return "successors %r do not form a single cycle" % succ
        return None

    return v


def v_tsp(costs):
    n = len(costs)
    vc = v_circuit(n)

    def v(s):
        w = vc(s)
        if w:
            return w
        succ = list(s[:n])
        cs = [costs[i][succ[i]] for i in range(n)]
        if list(s[n:2 * n]) != cs:
            return "cost variables %r differ from the arc costs %r" % (list(s[n:2 * n]), cs)
        if s[2 * n] != sum(cs):
            return "total %d != %d" % (s[2 * n], sum(cs))
        return None

    return v


def held_karp(costs):
    n = len(costs)
    if n == 1:
        return 0

    @lru_cache(maxsize=None)
    def f(mask, last):
        if mask == (1 << n) - 1:
            return costs[last][0]
        best = None
        for j in range(1, n):
            if not mask & (1 << j):
                c = costs[last][j] + f(mask | (1 << j), j)
                if best is None or c < best:
                    best = c
        return best

    return f(1, 0)


def count_circuits(n):
    from math import factorial

    return factorial(n - 1)


def v_sudoku(givens):
    def v(s):
        m = [list(s[i * 9:(i + 1) * 9]) for i in range(9)]
        w = _latin(m, 9, list(range(1, 10)))
        if w:
            return w
        for bi in range(3):
            for bj in range(3):
                blk = [m[3 * bi + i][3 * bj + j] for i in range(3) for j in range(3)]
                if sorted(blk) != list(range(1, 10)):
                    return "block (%d,%d) invalid" % (bi, bj)
        for i in range(9):
            for j in range(9):
                if givens[i][j] in range(1, 10) and m[i][j] != givens[i][j]:
                    return "given at (%d,%d) not respected" % (i, j)
        return None

    return v


def sudoku_count(givens, limit=2):
    """Independent backtracking solver: number of completions (up to limit)."""
    g = [[x if x in range(1, 10) else 0 for x in row] for row in givens]
    cnt = [0]

    def ok(i, j, v):
        if any(g[i][k] == v for k in range(9)) or any(g[k][j] == v for k in range(9)):
            return False
        bi, bj = 3 * (i // 3), 3 * (j // 3)
        return all(g[bi + a][bj + b] != v for a in range(3) for b in range(3))

    def rec():
        if cnt[0] >= limit:
            return
        best = None
        for i in range(9):
            for j in range(9):
                if g[i][j] == 0:
                    c = [v for v in range(1, 10) if ok(i, j, v)]
                    if best is None or len(c) < len(best[2]):
                        best = (i, j, c)
        if best is None:
            cnt[0] += 1
            return
        i, j, c = best
        for v in c:
            g[i][j] = v
            rec()
            g[i][j] = 0

    rec()
    return cnt[0]


ALPHA_WORDS = {"BALLET": 45, "CELLO": 43, "CONCERT": 74, "FLUTE": 30, "FUGUE": 50, "GLEE": 66, "JAZZ": 58, "LYRE": 47,
               "OBOE": 53, "OPERA": 65, "POLKA": 59, "QUARTET": 50, "SAXOPHONE": 134, "SCALE": 51, "SOLO": 37,
               "SONG": 61, "SOPRANO": 82, "THEME": 72, "VIOLIN": 100, "WALTZ": 34}


def v_alpha(as_dict):
    def v(s):
        d = as_dict(s)
        if sorted(d.values()) != list(range(1, 27)):
            return "letters are not 1..26 exactly once"
        for w, t in ALPHA_WORDS.items():
            if sum(d[c] for c in w) != t:
                return "%s sums to %d, not %d" % (w, sum(d[c] for c in w), t)
        return None

    return v


def v_donald(as_dict):
    def v(s):
        d = as_dict(s)
        if len(set(d.values())) != 10 or not all(0 <= x <= 9 for x in d.values()):
            return "letters are not distinct digits"

        def num(w):
            return int("".join(str(d[c]) for c in w))

        if num("DONALD") + num("GERALD") != num("ROBERT"):
            return "%d + %d != %d" % (num("DONALD"), num("GERALD"), num("ROBERT"))
        return None

    return v


# ------------------------------------------------------------------------------------- own reference counts
def schur_count(n):
    """Number of 3-colourings of 1..n with no monochromatic x + y = z (x <= y), by own backtracking."""
    col = [0] * (n + 1)

    def ok(z, c):
        for x in range(1, z // 2 + 1):
            if col[x] == c and col[z - x] == c:
                return False
        return True

    def rec(z):
        if z > n:
            return 1
        t = 0
        for c in (1, 2, 3):
            if ok(z, c):
                col[z] = c
                t += rec(z + 1)
                col[z] = 0
        return t

    return rec(1)


def magic_sequence_count(n):
    """Own enumeration for small n (pruned product)."""
    if n > 9:
        return None
    c = 0
    for t in itertools.product(range(n + 1), repeat=n):
        if sum(t) == n and all(t.count(i) == t[i] for i in range(n)):
            c += 1
    return c


def golomb_optimum(k):
    """Own search for the optimal length (k <= 7)."""
    best = [None]

    def rec(marks, dists, limit):
        if len(marks) == k:
            if best[0] is None or marks[-1] < best[0]:
                best[0] = marks[-1]
            return
        for m in range(marks[-1] + 1, limit):
            nd = [m - x for x in marks]
            if len(set(nd)) == len(nd) and not (set(nd) & dists):
                rec(marks + [m], dists | set(nd), limit if best[0] is None else best[0])

    rec([0], set(), k * k)
    return best[0]


def magic_square_count(n):
    if n > 3:
        return MAGIC_SQUARES.get(n)
    t = (n * n - 1) * n // 2
    c = 0
    for p in itertools.permutations(range(n * n)):
        m = [p[i * n:(i + 1) * n] for i in range(n)]
        if all(sum(r) == t for r in m) and all(sum(m[i][j] for i in range(n)) == t for j in range(n)) and \
                sum(m[i][i] for i in range(n)) == t and sum(m[i][n - 1 - i] for i in range(n)) == t:
            c += 1
    return c


# ------------------------------------------------------------------ symmetric images (definition level, validated by the caller)
def images_quasigroup_rc(n, limit=6000):
    """Images of a quasigroup in the colour/row/column layout under relabelling of the elements: Q'(pi a, pi b) =
    pi Q(a, b). Idempotency and the QG identities are invariant. Yields at most `limit` permutations (all when n! fits)."""
    import itertools
    import math
    import random

    def img(s, pi):
        color = [[0] * n for _ in range(n)]
        for i in range(n):
            for j in range(n):
                color[pi[i]][pi[j]] = pi[s[i * n + j]]
        row = [[0] * n for _ in range(n)]
        col = [[0] * n for _ in range(n)]
        for i in range(n):
            for j in range(n):
                c = color[i][j]
                row[c][j] = i
                col[i][c] = j
        return tuple(x for m in (color, row, col) for r in m for x in r)

    def gen(s):
        if math.factorial(n) <= limit:
            perms = itertools.permutations(range(n))
        else:
            rnd = random.Random(n)
            perms = (tuple(rnd.sample(range(n), n)) for _ in range(limit))
        for pi in perms:
            yield img(s, pi)

    return gen


def images_magic_square(n):
    """The eight rotations/reflections of a magic square and their complements (v -> n^2-1-v)."""
    def gen(s):
        m = [list(s[i * n:(i + 1) * n]) for i in range(n)]
        cur = m
        for _ in range(4):
            cur = [list(r) for r in zip(*cur[::-1])]
            for mm in (cur, [r[::-1] for r in cur]):
                flat = tuple(x for r in mm for x in r)
                yield flat + tuple(s[n * n:])
                yield tuple(n * n - 1 - x for x in flat) + tuple(s[n * n:])

    return gen


def prefix_images_bibd(v_, b, k=12):
    """Row and column permutations of the incidence matrix (prefix = the v*b matrix cells)."""
    import random

    def gen(s):
        rnd = random.Random(hash(tuple(s[:v_ * b])) & 0xffff)
        m = [list(s[i * b:(i + 1) * b]) for i in range(v_)]
        for _ in range(k):
            pr = rnd.sample(range(v_), v_)
            pc = rnd.sample(range(b), b)
            yield tuple(m[pr[i]][pc[j]] for i in range(v_) for j in range(b))

    return gen


def prefix_images_schur(n):
    import itertools

    def gen(s):
        for pi in itertools.permutations(range(3)):
            yield tuple(s[3 * x + pi[k]] for x in range(n) for k in range(3))

    return gen


def prefix_images_queens(n):
    def gen(s):
        q = list(s[:n])
        inv = [0] * n
        for i, c in enumerate(q):
            inv[c] = i
        for base in (q, inv):
            for a in (base, base[::-1]):
                yield tuple(a)
                yield tuple(n - 1 - x for x in a)

    return gen

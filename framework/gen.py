"""Seeded generators: in-contract constraint calls (box + parameters) and random models (DESIGN.md section 4).

Everything is JSON-serialisable. Imports nothing from nucs.
"""
import itertools
import random

from framework.oracles import MIN_ARITY, SEM, TYPES

MODEL_TYPES = [t for t in TYPES if t not in ("no_sub_cycle", "scc")]  # circuit constraints are added as a group


# ------------------------------------------------------------------------------------------------ single calls
def gen_params(rnd, name, box, opts=None):
    """In-contract parameter vector for constraint `name` posted on views `box` (list of [lo,hi])."""
    opts = opts or {}
    n = len(box)
    lo = min(b[0] for b in box)
    hi = max(b[1] for b in box)
    if name in ("and", "alldifferent", "dummy", "element_liv", "lexicographic_leq", "max_eq", "max_leq", "min_eq",
                "min_geq", "no_sub_cycle", "scc"):
        return []
    if name in ("affine_eq", "affine_geq", "affine_leq"):
        cmax = opts.get("coef", 3)
        a = [rnd.randint(-cmax, cmax) for _ in range(n)]
        if not opts.get("allow_all_zero", True) and all(x == 0 for x in a):
            a[rnd.randrange(n)] = rnd.choice([-2, -1, 1, 2])
        smin = sum(min(ai * b[0], ai * b[1]) for ai, b in zip(a, box))
        smax = sum(max(ai * b[0], ai * b[1]) for ai, b in zip(a, box))
        c = rnd.randint(smin - 2, smax + 2)
        return a + [c]
    if name == "count_eq":
        return [rnd.randint(lo - 1, hi + 1)]
    if name == "element_iv":
        k = rnd.randint(1, 5)
        vlo, vhi = box[1]
        return [rnd.randint(vlo - 1, vhi + 1) for _ in range(k)]
    if name == "element_lic":
        return [rnd.randint(lo - 1, hi + 1)]
    if name == "exactly_eq":
        # counts outside 0..n are legal parameters of the documented relation (which is then unsatisfiable)
        return [rnd.randint(lo - 1, hi + 1), rnd.randint(0, n) if rnd.random() < 0.85 else rnd.choice([-2, -1, n + 1, n + 2])]
    if name == "exactly_true":
        return [rnd.randint(0, n) if rnd.random() < 0.85 else rnd.choice([-2, -1, n + 1, n + 2])]
    if name == "gcc":
        v0 = lo - rnd.randint(0, 1)
        m = hi - v0 + 1 + rnd.randint(0, 1)
        zero = opts.get("gcc_zero_cap", False)
        lows = [rnd.randint(0, 1) if rnd.random() < 0.4 else 0 for _ in range(m)]
        ups = []
        for l in lows:
            u = l + rnd.randint(0, 2)
            if not zero:
                u = max(1, u)
            ups.append(u)
        if zero and all(u > 0 for u in ups):
            j = rnd.randrange(m)
            lows[j] = 0
            ups[j] = 0
        if not zero and rnd.random() < 0.04:
            # contradictory but legal parameters: a lower bound above its (positive) capacity - the relation is unsatisfiable
            j = rnd.randrange(m)
            lows[j] = ups[j] + rnd.randint(1, 2)
        return [v0] + lows + ups
    if name == "relation":
        t = rnd.randint(1, 5)
        tl = []
        for _ in range(t):
            tl.extend(rnd.randint(b[0] - 1, b[1] + 1) for b in box)
        if t > 1 and rnd.random() < 0.3:  # repeated tuple
            tl.extend(tl[:n])
        return tl
    raise ValueError(name)


def arity_range(name, max_arity=5):
    lo = MIN_ARITY.get(name, 1)
    if name == "element_iv":
        return 2, 2
    if name == "dummy":
        return 1, min(3, max_arity)
    return lo, max(lo, max_arity)


def gen_box(rnd, name, n, opts=None):
    """Random box of non-empty intervals respecting the constraint's domain contract."""
    opts = opts or {}
    wmax = opts.get("width", 4)
    base = opts.get("base", 4)
    if name in ("and", "exactly_true"):
        return [rnd.choice([[0, 0], [1, 1], [0, 1], [0, 1]]) for _ in range(n)]
    if name in ("no_sub_cycle", "scc"):
        out = []
        for _ in range(n):
            a = rnd.randint(0, n - 1)
            b = rnd.randint(a, n - 1)
            out.append([a, b])
        return out
    if name in ("element_liv", "element_lic"):
        k = n - 2 if name == "element_liv" else n - 1
        out = []
        for _ in range(k):
            a = rnd.randint(-base, base)
            out.append([a, a + rnd.randint(0, wmax)])
        a = rnd.randint(-2, k)
        out.append([a, a + rnd.randint(0, k + 1)])
        if name == "element_liv":
            a = rnd.randint(-base, base)
            out.append([a, a + rnd.randint(0, wmax)])
        return out
    if name == "element_iv":
        a = rnd.randint(-2, 4)
        i = [a, a + rnd.randint(0, 5)]
        a = rnd.randint(-base, base)
        return [i, [a, a + rnd.randint(0, wmax)]]
    if name == "count_eq":
        out = []
        for _ in range(n - 1):
            a = rnd.randint(-base, base)
            out.append([a, a + rnd.randint(0, wmax)])
        a = rnd.randint(-1, n - 1)
        out.append([a, a + rnd.randint(0, n)])
        return out
    out = []
    shift = rnd.choice([0, 0, 0, 0, 10 ** 6, -(10 ** 6)]) if opts.get("big", False) else 0
    for _ in range(n):
        a = rnd.randint(-base, base) + shift
        out.append([a, a + rnd.randint(0, wmax)])
    return out


def gen_call(rnd, name, opts=None):
    opts = opts or {}
    lo, hi = arity_range(name, opts.get("max_arity", 5))
    if name != "element_iv":
        lo = min(hi, max(lo, opts.get("min_arity", lo)))
    n = rnd.randint(lo, hi)
    if name == "lexicographic_leq" and n % 2:
        n += 1
    box = gen_box(rnd, name, n, opts)
    params = gen_params(rnd, name, box, opts)
    return box, params


GAPS = [1, 1, 1, 2, 3, 255, 256, 257, 65535, 65536, 65537, 65538, 131073, 10 ** 6, 16777217, 2 ** 28]
STRETCHABLE = ("alldifferent", "max_eq", "min_eq", "max_leq", "min_geq", "lexicographic_leq", "count_eq", "exactly_eq",
               "element_iv", "element_liv", "element_lic", "relation", "affine_leq", "affine_geq", "affine_eq", "gcc")
TRANSLATIONS = [127, -130, 255, 32760, -32770, 40000, 65530, -65540, 70000, 10 ** 6, -(10 ** 6), 2 ** 24, 2 ** 30, -(2 ** 30)]


def stretch_call(rnd, name, box, params):
    """Maps the values of a small call through a strictly increasing function with gaps around 2^8, 2^16, 2^24, 2^28: the
    same shapes on domains that are up to ~10^9 wide (positions, counts and coefficients are left alone; parameters that
    are values go through the same map). Values stay inside +-2^30 and linear sums inside int32."""
    n = len(box)
    if name == "gcc":
        # the capacities are per value of a contiguous range: translate the range instead of stretching it
        t = rnd.choice(TRANSLATIONS)
        return [[a + t, b + t] for a, b in box], [params[0] + t] + list(params[1:])
    if name.startswith("affine"):
        value_pos = list(range(n))
    elif name == "count_eq":
        value_pos = list(range(n - 1))
    elif name == "element_iv":
        value_pos = [1]
    elif name == "element_liv":
        value_pos = list(range(n - 2)) + [n - 1]
    elif name == "element_lic":
        value_pos = list(range(n - 1))
    else:
        value_pos = list(range(n))
    if name in ("count_eq", "element_lic"):
        value_par = [0]
    elif name == "exactly_eq":
        value_par = [0]
    elif name in ("element_iv", "relation"):
        value_par = list(range(len(params)))
    else:
        value_par = []
    vals = [v for i in value_pos for v in box[i]] + [params[k] for k in value_par]
    lo, hi = min(vals) - 1, max(vals) + 1
    gaps = GAPS[:14] if name.startswith("affine") else GAPS
    # one call in six (not the linear constraints, whose products have their own stream) spans more than 2^31: every bound is a
    # 32-bit integer, the distance between two of them is not
    huge = (not name.startswith("affine")) and rnd.random() < 0.17
    if huge:
        gaps = gaps + [2 ** 30, 2 ** 30, 2 ** 31 - 5]
    while True:
        f = {}
        cur = 0
        for u in range(lo, hi + 1):
            f[u] = cur
            cur += rnd.choice(gaps)
        if cur < (2 ** 32 - 2 ** 18 if huge else 2 ** 30):
            break
    shift = rnd.choice([0, -f[hi] // 2, -f[hi], rnd.randint(-1000, 1000)])
    if huge or f[hi] >= 2 ** 30:
        shift = -f[hi] // 2 + rnd.randint(-1000, 1000)  # centred: all values within +-(2^31 - 2^17)
    big_coef = name.startswith("affine") and rnd.random() < 0.3
    if big_coef:
        # large coefficients on values up to ~10^5: every coefficient, bound and the constant are 32-bit integers, the
        # products a_i * x_i are not (the documented relation is over the integers)
        params = [ai * rnd.choice([1, 300, 50000, 70000]) for ai in params[:-1]] + [params[-1]]
        while f[hi] + abs(shift) > 150000:
            f = {u: v // 4 + (u - lo) for u, v in f.items()}
            shift //= 4
    elif name.startswith("affine"):
        # keep sum |a_i| max|x_i| + |c| below 2^31: scale the whole map down when needed
        a = params[:-1]
        while sum(abs(ai) for ai in a) * (f[hi] + abs(shift) + 1) >= 2 ** 30 - 2 ** 20:
            f = {u: v // 4 + (u - lo) for u, v in f.items()}
            shift //= 4
    g = {u: v + shift for u, v in f.items()}
    nbox = [list(b) for b in box]
    for i in value_pos:
        nbox[i] = [g[box[i][0]], g[box[i][1]]]
    npar = list(params)
    for k in value_par:
        npar[k] = g[params[k]]
    if name.startswith("affine"):
        a = params[:-1]
        t = [rnd.randint(l, h) if rnd.random() < 0.5 else rnd.choice((l, h)) for l, h in nbox]
        npar[-1] = sum(ai * ti for ai, ti in zip(a, t)) + rnd.choice([0, 0, 0, 1, -1, 2, -3, 70000, -70000])
        if abs(npar[-1]) >= 2 ** 31 - 1:
            # the constant itself must be a 32-bit integer: fall back to a point near the origin of the box
            npar[-1] = max(-(2 ** 31) + 2, min(2 ** 31 - 2, npar[-1])) if not big_coef else rnd.randint(-(10 ** 6), 10 ** 6)
    return nbox, npar


# -------------------------------------------------------------------------------- exhaustive small scope per type
def small_universe_boxes(n, lo, hi):
    ivs = [[a, b] for a in range(lo, hi + 1) for b in range(a, hi + 1)]
    return itertools.product(ivs, repeat=n)


def enum_small(name, scope):
    """Yields (box, params) exhaustively for a small scope. scope: dict(arity=[...], lo, hi)."""
    lo, hi = scope.get("lo", 0), scope.get("hi", 2)
    for n in scope["arity"]:
        if name in ("and", "exactly_true"):
            boxes = small_universe_boxes(n, 0, 1)
        elif name in ("no_sub_cycle", "scc"):
            boxes = small_universe_boxes(n, 0, n - 1)
        else:
            boxes = small_universe_boxes(n, lo, hi)
        plist = list(enum_params(name, n, lo, hi, scope))
        for box in boxes:
            box = [list(b) for b in box]
            for p in plist:
                if name == "gcc":
                    # contract: all views inside [v0, v0+m-1]
                    m = (len(p) - 1) // 2
                    if min(b[0] for b in box) < p[0] or max(b[1] for b in box) > p[0] + m - 1:
                        continue
                yield box, p


def enum_params(name, n, lo, hi, scope):
    if name in ("and", "alldifferent", "dummy", "element_liv", "lexicographic_leq", "max_eq", "max_leq", "min_eq",
                "min_geq", "no_sub_cycle", "scc"):
        yield []
    elif name in ("affine_eq", "affine_geq", "affine_leq"):
        coefs = scope.get("coefs", [-2, -1, 0, 1, 2])
        consts = scope.get("consts", list(range(-3, 6)))
        for a in itertools.product(coefs, repeat=n):
            for c in consts:
                yield list(a) + [c]
    elif name in ("count_eq", "element_lic"):
        for a in range(lo - 1, hi + 2):
            yield [a]
    elif name == "element_iv":
        vals = list(range(lo, hi + 1))
        for k in (1, 2, 3):
            for l in itertools.product(vals, repeat=k):
                yield list(l)
    elif name == "exactly_eq":
        for a in range(lo - 1, hi + 2):
            for c in range(-1, n + 2):
                yield [a, c]
    elif name == "exactly_true":
        for c in range(-1, n + 2):
            yield [c]
    elif name == "gcc":
        m = hi - lo + 1
        zero = scope.get("gcc_zero_cap", False)
        caps = [(l, u) for l in (0, 1) for u in range(l, 3) if (u > 0 or zero)]
        for lu in itertools.product(caps, repeat=m):
            yield [lo] + [x[0] for x in lu] + [x[1] for x in lu]
    elif name == "relation":
        vals = list(range(lo, hi + 1))
        tuples_ = list(itertools.product(vals, repeat=n))
        rnd = random.Random(n * 1000 + len(vals))
        seen = set()
        for t in tuples_:  # every single tuple
            yield list(t)
        for _ in range(scope.get("relation_sets", 12)):
            k = rnd.randint(2, 4)
            ts = tuple(rnd.choice(tuples_) for _ in range(k))
            if ts in seen:
                continue
            seen.add(ts)
            yield [x for t in ts for x in t]
    else:
        raise ValueError(name)


# ------------------------------------------------------------------------------------------------ random models
def gen_model(rnd, opts=None):
    """Random model + tags. opts keys:
    types            allowed constraint names (default MODEL_TYPES)
    repeat           allow a shared domain at several positions of one constraint (default True)
    gcc_zero_cap     allow zero capacities in gcc
    affine_all_zero  allow all-zero coefficient vectors
    nonneg           all shared domains inside [0, cols) (cost-based heuristics)
    max_doms, max_alias, max_props, width
    circuit          probability of adding a circuit group (alldifferent + no_sub_cycle [+ scc])
    """
    opts = opts or {}
    types = opts.get("types", MODEL_TYPES)
    D = rnd.randint(min(opts.get("min_doms", 1), opts.get("max_doms", 4)), opts.get("max_doms", 4))
    wchoices = opts.get("widths", [0, 1, 1, 2, 2, 3, 4])
    doms = []
    for _ in range(D):
        if opts.get("nonneg"):
            a = rnd.randint(0, 3)
        else:
            a = rnd.randint(-4, 4)
        doms.append([a, a + rnd.choice(wchoices)])
    for k in range(min(D, opts.get("bool_doms", 0))):
        doms[k] = [0, 1]
    far = False
    if opts.get("big") and not opts.get("nonneg") and rnd.random() < opts.get("big_p", 0.1):  # (cost tables have one column per value)
        s = rnd.choice([10 ** 6, -(10 ** 6), 10 ** 6, -(10 ** 6), 2 ** 30, -(2 ** 30) - 5, 1500000000, -1500000000])
        doms = [[a + s, b + s] for a, b in doms]
        if abs(s) > 2 ** 28:
            # bounds that add up beyond 32 bits; linear constraints would leave their magnitude contract
            types = [t for t in types if not t.startswith("affine")] or ["alldifferent"]
            far = True
    idx = list(range(D))
    off = [0] * D
    for _ in range(rnd.randint(min(opts.get("min_alias", 0), opts.get("max_alias", 3)), opts.get("max_alias", 3))):
        idx.append(rnd.randrange(D))
        off.append(rnd.randint(-3, 3))
    V = len(idx)
    vdom = [[doms[idx[v]][0] + off[v], doms[idx[v]][1] + off[v]] for v in range(V)]
    tags = set()
    if far:
        tags.add("bounds_add_up_beyond_32_bits")
    props = []
    allow_repeat = opts.get("repeat", True)

    def pick(k, pool=None):
        pool = list(range(V)) if pool is None else list(pool)
        if allow_repeat:
            if rnd.random() < 1.0 - opts.get("repeat_p", 0.4):  # mostly distinct variables, sometimes with repetition
                rnd.shuffle(pool)
                out = pool[:k]
                while len(out) < k:
                    out.append(rnd.choice(pool))
                return out
            return [rnd.choice(pool) for _ in range(k)]
        rnd.shuffle(pool)
        out, used = [], set()
        for v in pool:
            if idx[v] not in used:
                used.add(idx[v])
                out.append(v)
            if len(out) == k:
                break
        return out

    # a planted assignment: most constraints are generated so that it satisfies them (otherwise random models
    # are overwhelmingly infeasible and the search is never exercised)
    plant_shared = [rnd.randint(a, b) for a, b in doms]
    plant = [plant_shared[idx[v]] + off[v] for v in range(V)]
    planted = rnd.random() < opts.get("plant", 0.75)

    forced = list(opts.get("force_types") or [])
    shared_var = rnd.randrange(V) if opts.get("share") else None

    def one_constraint(name=None):
        name = name or rnd.choice(types)
        lo, hi = arity_range(name, opts.get("max_arity", 4))
        k = rnd.randint(lo, hi)
        if name == "lexicographic_leq" and k % 2:
            k += 1
        pool = None
        if name in ("and", "exactly_true"):
            pool = [v for v in range(V) if vdom[v][0] >= 0 and vdom[v][1] <= 1]
            if not pool:
                return None
        vs = pick(k, pool)
        if len(vs) < MIN_ARITY.get(name, 1):
            return None
        if shared_var is not None and shared_var not in vs and (pool is None or shared_var in pool):
            vs[rnd.randrange(len(vs))] = shared_var
        if name == "lexicographic_leq" and len(vs) % 2:
            vs = vs[:-1]
        if name == "element_iv" and len(vs) != 2:
            return None
        box = [vdom[v] for v in vs]
        popts = {"gcc_zero_cap": opts.get("gcc_zero_cap", False) and rnd.random() < 0.5,
                 "allow_all_zero": opts.get("affine_all_zero", False)}
        params = gen_params(rnd, name, box, popts)
        return [vs, name, params]

    nprops = len(forced) if forced else rnd.randint(1, opts.get("max_props", 4))
    for pi in range(nprops):
        c = None
        for attempt in range(8 if planted else 1):
            c2 = one_constraint(forced[pi] if forced else None)
            if c2 is None:
                continue
            c = c2
            if not planted or SEM[c[1]](tuple(plant[v] for v in c[0]), c[2]):
                break
        if c is None:
            continue
        vs, name, params = c
        if name == "gcc":
            m = (len(params) - 1) // 2
            if any(u == 0 for u in params[1 + m:]):
                tags.add("gcc_zero_capacity")
        if name.startswith("affine") and all(a == 0 for a in params[:-1]):
            tags.add("affine_all_zero_coefficients")
        ds = [idx[v] for v in vs]
        if len(set(ds)) < len(ds):
            tags.add("repeated_shared_domain_in_constraint")
        props.append([vs, name, params])
    if rnd.random() < opts.get("circuit", 0.0):
        # a circuit group on fresh variables 0..n-1
        n = rnd.randint(2, 4)
        base = len(doms)
        for i in range(n):
            doms.append([0, n - 1])
            idx.append(base + i)
            off.append(0)
        # keep idx aligned: variable index == position in idx; shared-domain index for new ones
        vs = list(range(V, V + n))
        props.append([vs, "alldifferent", []])
        props.append([vs, "no_sub_cycle", []])
        if rnd.random() < 0.5:
            props.append([vs, "scc", []])
        tags.add("circuit_group")
    if not props:
        props.append([[0], "dummy", []])
    if not forced:
        rnd.shuffle(props)
    model = {"doms": doms, "idx": idx, "off": off, "props": props}
    if rnd.random() < opts.get("shuffle_vars", 0.35) and len(idx) > 1:
        # variables in another order than their shared domains: the variable -> shared-domain mapping is not the identity
        # on any prefix (a variable index must never be usable as a shared-domain index)
        nv = len(idx)
        pv = list(range(nv))
        rnd.shuffle(pv)
        inv = {old: new for new, old in enumerate(pv)}
        model = {"doms": doms, "idx": [idx[pv[k]] for k in range(nv)], "off": [off[pv[k]] for k in range(nv)],
                 "props": [[[inv[v] for v in vs], name, p] for vs, name, p in props]}
        idx, off = model["idx"], model["off"]
        tags.add("variable_order_differs_from_domain_order")
    if any(a == b for a, b in doms):
        tags.add("singleton_domain")
    if any(a < 0 for a, b in doms):
        tags.add("negative_bounds")
    if len(idx) > len(doms):
        tags.add("alias_with_offset")
    return model, sorted(tags)


def fix_circuit_layout(model):
    return model


CALGS = ["bc", "shaving"]
VHS = ["first", "smallest", "greatest"]
DHS = ["min", "max", "split_low", "mid"]


def gen_costs(rnd, doms, ties=True, all_tied=False):
    """One row per shared domain, one column per value (domains must be inside [0, cols))."""
    cols = max(b for a, b in doms) + 1
    rows = []
    for _ in doms:
        if all_tied:
            c = rnd.randint(1, 5)
            row = [c] * cols
        else:
            row = [rnd.randint(1, 4 if ties else 1000) for _ in range(cols)]
        if rnd.random() < 0.3:
            row[rnd.randrange(cols)] = rnd.choice([0, 0, -1])
        if rnd.random() < 0.2:
            # free moves: several (possibly all) costs are zero - "the value that minimizes the cost" still exists
            row = [0 if rnd.random() < 0.65 else c for c in row]
        rows.append(row)
    return rows


def gen_config(rnd, model=None, cost=False):
    cfg = {"calg": rnd.choice(CALGS), "vh": rnd.choice(VHS), "dh": rnd.choice(DHS)}
    if model is not None and len(model["doms"]) > 1 and rnd.random() < 0.3:
        # every domain is still a decision domain, listed in another order (the magic-sequence example does that)
        order = list(range(len(model["doms"])))
        if rnd.random() < 0.4:
            order.reverse()
        else:
            rnd.shuffle(order)
        cfg["decision"] = order
    if cost and model is not None and all(a >= 0 for a, b in model["doms"]):
        r = rnd.random()
        if r < 0.5:
            cfg["vh"] = "max_regret"
        if r > 0.25:
            cfg["dh"] = "min_cost"
        cfg["costs"] = gen_costs(rnd, model["doms"])
    return cfg


def all_configs():
    return [{"calg": c, "vh": v, "dh": d} for c in CALGS for v in VHS for d in DHS]


PAIR_TYPES = [t for t in MODEL_TYPES if t != "dummy"]


def gen_pair_model(rnd, k):
    """k-th ordered pair of constraint types, forced to share a variable, on domains wide enough for both bounds of a
    variable to move in one call (interaction coverage: mover x watcher)."""
    n = len(PAIR_TYPES)
    ta, tb = PAIR_TYPES[(k // n) % n], PAIR_TYPES[k % n]
    for _ in range(20):
        nb = sum(1 for t in (ta, tb) if t in ("and", "exactly_true"))
        model, tags = gen_model(rnd, {"force_types": [ta, tb], "share": True, "widths": [1, 2, 3, 3, 4, 4],
                                      "max_doms": 5 if nb else 4, "max_alias": 2, "circuit": 0.0,
                                      "gcc_zero_cap": False, "affine_all_zero": False, "repeat": False,
                                      "bool_doms": 3 if nb else 0, "min_doms": 4 if nb else 3})
        if len(model["props"]) == 2:
            break
    return model, tags + ["pair:%s+%s" % (ta, tb)]

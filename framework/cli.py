"""./check <ID> [--tier quick|thorough] [--replay path]   (exit 0 held, 1 violated, 2 inconclusive)"""
import argparse
import importlib
import json
import os
import sys

from framework import common


def main():
    ap = argparse.ArgumentParser()
    ap.add_argument("prop")
    ap.add_argument("--tier", default=os.environ.get("VERIF_TIER", "quick"))
    ap.add_argument("--replay", default=None)
    ap.add_argument("--seed", type=int, default=None)
    a = ap.parse_args()
    if a.tier not in ("quick", "thorough"):
        a.tier = "quick"
    seed = a.seed if a.seed is not None else int(os.environ.get("VERIF_SEED", "0") or 0)
    if not os.path.isdir(os.path.join(common.TREE, "nucs")):
        print("no nucs tree at %s" % common.TREE)
        sys.exit(2)
    os.makedirs(common.WORK, exist_ok=True)
    common.prune_caches()
    try:
        mod = importlib.import_module("framework.props." + a.prop.lower())
        if a.replay:
            with open(a.replay) as f:
                rep = json.load(f)
            rc = mod.replay(rep)
        else:
            rc = mod.main(a.tier, seed)
    except Exception:
        # a defect of the machinery is never a verdict about the code under test
        import traceback

        traceback.print_exc()
        print("INCONCLUSIVE: the check itself failed (see the traceback above)")
        rc = 2
    sys.exit(rc)


if __name__ == "__main__":
    main()

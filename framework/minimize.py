"""Delta-debugging of a failing (model, cfg) to a 1-minimal witness before classification (DESIGN.md section 5)."""
import copy

from framework import oracles as O


def _valid(model):
    nv = len(model["idx"])
    if not model["doms"] or nv == 0:
        return False
    for a, b in model["doms"]:
        if a > b:
            return False
    for vs, name, p in model["props"]:
        if len(vs) < O.MIN_ARITY.get(name, 1):
            return False
        if any(v >= nv for v in vs):
            return False
    return True


def _in_contract(model):
    """Cheap re-check of the parameter contract after a shrinking step."""
    vd = O.var_domains(model)
    for vs, name, p in model["props"]:
        box = [vd[v] for v in vs]
        if name in ("and", "exactly_true"):
            if any(b[0] < 0 or b[1] > 1 for b in box):
                return False
        if name == "gcc":
            m = (len(p) - 1) // 2
            if m < 1 or any(b[0] < p[0] or b[1] > p[0] + m - 1 for b in box):
                return False
            if any(p[1 + j] < 0 or p[1 + j] > p[1 + m + j] for j in range(m)):
                return False
        if name in ("no_sub_cycle", "scc"):
            if any(b[0] < 0 or b[1] > len(vs) - 1 for b in box):
                return False
        if name == "exactly_eq" and not (0 <= p[1] <= len(vs)):
            return False
        if name == "exactly_true" and not (0 <= p[0] <= len(vs)):
            return False
        if name == "lexicographic_leq" and len(vs) % 2:
            return False
        if name == "element_iv" and (len(vs) != 2 or len(p) < 1):
            return False
        if name.startswith("affine") and len(p) != len(vs) + 1:
            return False
        if name == "relation" and (len(p) == 0 or len(p) % len(vs)):
            return False
    return True


def candidates(model, cfg):
    # 1. default the configuration
    base = {"calg": "bc", "vh": "first", "dh": "min"}
    for k, v in base.items():
        if cfg.get(k) != v and not (k in ("vh", "dh") and False):
            c2 = dict(cfg)
            c2[k] = v
            if c2.get("vh") != "max_regret" and c2.get("dh") != "min_cost":
                c2.pop("costs", None)
            yield model, c2
    if cfg.get("decision") is not None:
        c2 = dict(cfg)
        c2.pop("decision")
        yield model, c2
    # 2. drop a constraint
    for k in range(len(model["props"])):
        if len(model["props"]) > 1:
            m2 = copy.deepcopy(model)
            del m2["props"][k]
            yield m2, cfg
    # 3. drop the last variable if unused
    nv = len(model["idx"])
    used = set(v for vs, _, _ in model["props"] for v in vs)
    if nv - 1 not in used and nv > 1:
        d = model["idx"][nv - 1]
        others = model["idx"][: nv - 1]
        if d in others or d == len(model["doms"]) - 1:
            m2 = copy.deepcopy(model)
            m2["idx"].pop()
            m2["off"].pop()
            if d not in others and d == len(m2["doms"]) - 1:
                m2["doms"].pop()
                if cfg.get("costs") is not None:
                    c2 = dict(cfg)
                    c2["costs"] = cfg["costs"][:-1]
                    yield m2, c2
                    m2 = None
            if m2 is not None:
                yield m2, cfg
    # 4. shorten a constraint's variable list where arity is free
    for k, (vs, name, p) in enumerate(model["props"]):
        if name in ("alldifferent", "max_eq", "max_leq", "min_eq", "min_geq", "and", "count_eq", "exactly_eq",
                    "exactly_true", "dummy") and len(vs) > O.MIN_ARITY.get(name, 1):
            for pos in range(len(vs) - (1 if name in ("max_eq", "max_leq", "min_eq", "min_geq", "and", "count_eq")
                                        else 0)):
                m2 = copy.deepcopy(model)
                del m2["props"][k][0][pos]
                yield m2, cfg
        if name.startswith("affine") and len(vs) > 1:
            for pos in range(len(vs)):
                m2 = copy.deepcopy(model)
                del m2["props"][k][0][pos]
                del m2["props"][k][2][pos]
                yield m2, cfg
    # 5. narrow domains
    for d, (a, b) in enumerate(model["doms"]):
        if a < b:
            for nd in ([a + 1, b], [a, b - 1], [a, a], [b, b]):
                m2 = copy.deepcopy(model)
                m2["doms"][d] = nd
                yield m2, cfg
    # 6. simplify offsets and parameters
    for v, o in enumerate(model["off"]):
        if o != 0:
            m2 = copy.deepcopy(model)
            m2["off"][v] = 0
            yield m2, cfg
    for k, (vs, name, p) in enumerate(model["props"]):
        if name == "relation" and len(p) > len(vs):
            n = len(vs)
            for t in range(len(p) // n):
                m2 = copy.deepcopy(model)
                del m2["props"][k][2][t * n:(t + 1) * n]
                yield m2, cfg
        for i, x in enumerate(p):
            for nx in (0, x // 2, x - 1 if x > 0 else x + 1):
                if nx != x:
                    m2 = copy.deepcopy(model)
                    m2["props"][k][2][i] = nx
                    yield m2, cfg


def minimize(model, cfg, still_fails, max_evals=120):
    """still_fails(model, cfg) -> bool. Returns (model, cfg, evals)."""
    evals = 0
    progress = True
    while progress and evals < max_evals:
        progress = False
        for m2, c2 in candidates(model, cfg):
            if evals >= max_evals:
                break
            if not _valid(m2) or not _in_contract(m2):
                continue
            evals += 1
            try:
                ok = still_fails(m2, c2)
            except Exception:
                ok = False
            if ok:
                model, cfg = m2, c2
                progress = True
                break
    return model, cfg, evals

"""Runs one model x configuration on the real solver in the current process (either mode) and reports what
happened at the API boundary; in interpreted mode, with the requested plane-A monitors attached.
"""
import os

from framework import nucsmap as M
from framework import oracles as O

INTERP = bool(os.environ.get("NUMBA_DISABLE_JIT"))

STAT_KEYS = [
    "ALG_BC_NB", "ALG_BC_WITH_SHAVING_NB", "ALG_SHAVING_NB", "ALG_SHAVING_CHANGE_NB", "ALG_SHAVING_NO_CHANGE_NB",
    "PROPAGATOR_ENTAILMENT_NB", "PROPAGATOR_FILTER_NB", "PROPAGATOR_FILTER_NO_CHANGE_NB",
    "PROPAGATOR_INCONSISTENCY_NB", "SOLVER_BACKTRACK_NB", "SOLVER_CHOICE_NB", "SOLVER_CHOICE_DEPTH",
    "SOLVER_SOLUTION_NB",
]


def stats_list(solver):
    d = solver.get_statistics()
    return [int(d[k]) for k in STAT_KEYS]


class Outcome:
    """error kinds: None | 'budget' | 'exception:<Type>' | 'too_many_solutions' | 'monitor'"""

    def __init__(self):
        self.solutions = []
        self.stats = None
        self.error = None
        self.error_detail = None
        self.result = "unset"  # optimisation: tuple or None
        self.monitor_fails = []
        self.monitor_counts = {}
        self.trace = None

    def as_dict(self):
        return {"solutions": [list(s) for s in self.solutions], "stats": self.stats, "error": self.error,
                "error_detail": self.error_detail, "result": (list(self.result) if isinstance(self.result, tuple)
                                                              else self.result),
                "monitor_fails": self.monitor_fails, "monitor_counts": self.monitor_counts, "trace": self.trace}


def _attach(model, mon_spec, objective_width=None):
    """mon_spec: dict name -> options. Returns (hub, monitors dict)."""
    if not INTERP or not mon_spec:
        return None, {}
    from framework import monitors as MON
    from framework.planes import interp

    hub = interp.install()
    hub.off_all()
    mons = {}
    if "budget" in mon_spec:
        o = mon_spec["budget"] or {}
        mons["budget"] = MON.StepBudget(hub, model, scale=o.get("scale", 1), use_lines=o.get("lines", True),
                                        objective_width=objective_width)
        mons["budget"].cut_after_passes = o.get("cut_after_passes")
    if "calls" in mon_spec:
        o = mon_spec["calls"] or {}
        mons["calls"] = MON.CallJudge(hub, M.NAME_OF, hull_limit=o.get("hull_limit", 2000),
                                      cache=o.get("cache"))
    for name in ("fixpoint", "branch", "shaving", "stats", "flags", "opthist", "schedule"):
        if name in mon_spec:
            from framework import monitors2 as MON2

            mons[name] = MON2.make(name, hub, model, mon_spec[name] or {})
    return hub, mons


def _detach(hub, mons, out):
    if hub is None:
        return
    for k, m in mons.items():
        if hasattr(m, "close"):
            m.close()
        for f in m.fails:
            out.monitor_fails.append(f)
        cnt = m.summary() if hasattr(m, "summary") else m.counts
        for ck, cv in cnt.items():
            out.monitor_counts["%s.%s" % (k, ck)] = cv
    if "budget" in mons and out.error == "budget":
        out.trace = [list(e) for e in mons["budget"].trace[-200:]]
    hub.off_all()


def run_enum(model, cfg=None, mon_spec=None, max_solutions=20000, stop_after=None, solver_kw=None):
    """Exhaustive (or partial: stop_after) enumeration through BacktrackSolver.solve()."""
    from framework.planes.linebudget import BudgetExceeded

    out = Outcome()
    hub, mons = _attach(model, mon_spec)
    solver = None
    try:
        kw2 = dict(solver_kw or {})
        pobj = kw2.pop("problem_obj", None)
        solver = M.build_solver(model, cfg, problem=pobj, **kw2)
        for mk in ("stats", "branch", "schedule"):
            if mk in mons:
                mons[mk].bind(solver)
        n = 0
        for sol in solver.solve():
            out.solutions.append(M.tup(sol))
            n += 1
            if "stats" in mons:
                mons["stats"].delivered()
            if stop_after is not None and n >= stop_after:
                break
            if n > max_solutions:
                out.error = "too_many_solutions"
                break
    except BudgetExceeded as e:
        out.error = "budget"
        out.error_detail = str(e)
    except Exception as e:  # any exception escaping the solver API
        from framework.monitors import MonitorViolation

        if isinstance(e, MonitorViolation):
            out.error = "monitor"
            out.error_detail = str(e)
        else:
            out.error = "exception:" + type(e).__name__
            out.error_detail = str(e)[:300]
    finally:
        if solver is not None:
            try:
                out.stats = stats_list(solver)
            except Exception:
                out.stats = None
            if "stats" in mons:
                mons["stats"].final(solver, out)
        _detach(hub, mons, out)
    out.solver = solver
    return out


def run_opt(model, cfg, var, direction, mon_spec=None):
    from framework.planes.linebudget import BudgetExceeded

    out = Outcome()
    vd = O.var_domains(model)[var]
    hub, mons = _attach(model, mon_spec, objective_width=vd[1] - vd[0] + 1)
    solver = None
    try:
        solver = M.build_solver(model, cfg)
        if "opthist" in mons:
            mons["opthist"].bind(solver, var, direction)
        for mk in ("stats", "branch"):
            if mk in mons:
                mons[mk].bind(solver)
        r = solver.minimize(var) if direction == "min" else solver.maximize(var)
        out.result = None if r is None else M.tup(r)
    except BudgetExceeded as e:
        out.error = "budget"
        out.error_detail = str(e)
    except Exception as e:
        from framework.monitors import MonitorViolation

        if isinstance(e, MonitorViolation):
            out.error = "monitor"
            out.error_detail = str(e)
        else:
            out.error = "exception:" + type(e).__name__
            out.error_detail = str(e)[:300]
    finally:
        if solver is not None:
            try:
                out.stats = stats_list(solver)
            except Exception:
                out.stats = None
            if "opthist" in mons:
                mons["opthist"].final(out)
            if "stats" in mons:
                mons["stats"].final(solver, out)
        _detach(hub, mons, out)
    out.solver = solver
    return out

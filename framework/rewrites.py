"""Meaning-preserving rewrites of a model (C13). Each returns (model2, back) where back(solution2) is the solution
of the original model it corresponds to (a tuple over the original variables)."""
import copy

TI_TYPES = ["alldifferent", "lexicographic_leq", "max_eq", "max_leq", "min_eq", "min_geq", "relation", "exactly_eq",
            "gcc"]


def model_from_problem(p, name_of):
    return {"doms": [list(d) for d in p.shr_domains_lst], "idx": [int(x) for x in p.dom_indices_lst],
            "off": [int(x) for x in p.dom_offsets_lst],
            "props": [[[int(v) for v in vs], name_of[int(alg)], [int(x) for x in pr]] for vs, alg, pr in p.propagators]}


def _copy(m):
    return copy.deepcopy(m)


def dealias(m):
    """Every variable gets its own shared domain; aliases are linked to a representative by x_v - x_u = o_v - o_u."""
    m2 = _copy(m)
    rep = {}
    nd = []
    idx2, off2, extra = [], [], []
    for v, (d, o) in enumerate(zip(m["idx"], m["off"])):
        a, b = m["doms"][d]
        nd.append([a + o, b + o])
        idx2.append(len(nd) - 1)
        off2.append(0)
        if d in rep:
            u, ou = rep[d]
            extra.append([[v, u], "affine_eq", [1, -1, o - ou]])
        else:
            rep[d] = (v, o)
    m2["doms"], m2["idx"], m2["off"] = nd, idx2, off2
    m2["props"] = m2["props"] + extra
    return m2, (lambda s: tuple(s)), len(extra)


def permute_constraints(m, rnd):
    m2 = _copy(m)
    rnd.shuffle(m2["props"])
    return m2, (lambda s: tuple(s))


def permute_variables(m, rnd):
    """Variables and shared domains are both renumbered."""
    nv, ndm = len(m["idx"]), len(m["doms"])
    pv = list(range(nv))
    rnd.shuffle(pv)  # new position k holds old variable pv[k]
    pd = list(range(ndm))
    rnd.shuffle(pd)
    inv_v = {old: new for new, old in enumerate(pv)}
    inv_d = {old: new for new, old in enumerate(pd)}
    m2 = {"doms": [list(m["doms"][pd[k]]) for k in range(ndm)],
          "idx": [inv_d[m["idx"][pv[k]]] for k in range(nv)],
          "off": [m["off"][pv[k]] for k in range(nv)],
          "props": [[[inv_v[v] for v in vs], name, list(p)] for vs, name, p in m["props"]]}
    return m2, (lambda s: tuple(s[inv_v[v]] for v in range(nv))), inv_v


def permute_arguments(m, rnd):
    """The arguments of every constraint whose meaning does not depend on their order are listed in another order (linear
    constraints keep each coefficient with its variable; functional constraints keep the result in last position)."""
    m2 = _copy(m)
    for c in m2["props"]:
        vs, name, p = c
        n = len(vs)
        if name in ("affine_eq", "affine_leq", "affine_geq"):
            perm = list(range(n))
            rnd.shuffle(perm)
            c[0] = [vs[i] for i in perm]
            c[2] = [p[i] for i in perm] + [p[-1]]
        elif name in ("alldifferent", "exactly_eq", "exactly_true", "gcc"):
            perm = list(range(n))
            rnd.shuffle(perm)
            c[0] = [vs[i] for i in perm]
        elif name in ("and", "count_eq", "max_eq", "min_eq", "max_leq", "min_geq"):
            perm = list(range(n - 1))
            rnd.shuffle(perm)
            c[0] = [vs[i] for i in perm] + [vs[-1]]
        elif name == "relation" and n:
            perm = list(range(n))
            rnd.shuffle(perm)
            c[0] = [vs[i] for i in perm]
            c[2] = [p[k + i] for k in range(0, len(p) - n + 1, n) for i in perm]
        elif name == "lexicographic_leq":
            pass
    return m2, (lambda s: tuple(s))


def duplicate_constraint(m, rnd):
    m2 = _copy(m)
    k = rnd.randrange(len(m["props"]))
    m2["props"].insert(rnd.randrange(len(m2["props"]) + 1), copy.deepcopy(m["props"][k]))
    return m2, (lambda s: tuple(s))


def add_true_constraint(m, rnd):
    m2 = _copy(m)
    nv = len(m["idx"])
    vs = [rnd.randrange(nv) for _ in range(rnd.randint(1, min(3, nv)))]
    if rnd.random() < 0.5:
        c = [vs, "dummy", []]
    else:
        a = [rnd.randint(-2, 2) for _ in vs]
        vd = [[m["doms"][m["idx"][v]][0] + m["off"][v], m["doms"][m["idx"][v]][1] + m["off"][v]] for v in vs]
        smax = sum(max(ai * lo, ai * hi) for ai, (lo, hi) in zip(a, vd))
        c = [vs, "affine_leq", a + [smax + rnd.randint(0, 2)]]
    m2["props"].insert(rnd.randrange(len(m2["props"]) + 1), c)
    return m2, (lambda s: tuple(s))


def translate(m, t):
    """All values shifted by t; only for models built from TI_TYPES."""
    m2 = _copy(m)
    m2["doms"] = [[a + t, b + t] for a, b in m["doms"]]
    for c in m2["props"]:
        vs, name, p = c
        if name == "relation":
            c[2] = [x + t for x in p]
        elif name == "exactly_eq":
            c[2] = [p[0] + t, p[1]]
        elif name == "gcc":
            c[2] = [p[0] + t] + list(p[1:])
        elif name not in TI_TYPES:
            raise ValueError("not translation invariant: " + name)
    return m2, (lambda s: tuple(x - t for x in s))

"""Verdicts, evidence files, replay files, known-finding classification (DESIGN.md section 5)."""
import json
import os
import sys
import time

from framework import findings
from framework.common import VERIF, canon, case_hash

EVIDENCE_DIR = os.environ.get("NUCS_VERIF_EVIDENCE", os.path.join(VERIF, "evidence"))
REPLAY_DIR = os.environ.get("NUCS_VERIF_REPLAYS", os.path.join(VERIF, "replays"))


class Report:
    def __init__(self, prop, tier, seed, level, rule, design_ref=None):
        self.prop, self.tier, self.seed, self.level, self.rule = prop, tier, seed, level, rule
        self.t0 = time.time()
        self.evaluations = 0
        self.distinct = set()
        self.samples = []
        self.classes = {}
        self.counters = {}
        self.violations = []  # witnesses
        self.violation_total = 0
        self.inconclusive = []  # reasons
        self.assumptions = []
        self.exhaustive = None
        self.extra = {}
        self.notes = []

    # -------------------------------------------------------------- accumulation helpers
    def count(self, key, n=1):
        self.counters[key] = self.counters.get(key, 0) + n

    def maxc(self, key, v):
        if v > self.counters.get(key, -(1 << 62)):
            self.counters[key] = v

    def merge_counts(self, prefix, d):
        for k, v in d.items():
            self.count(prefix + k, v)

    def add_class(self, tag, n=1):
        self.classes[tag] = self.classes.get(tag, 0) + n

    def sample(self, s, cap=8):
        if len(self.samples) < cap:
            try:
                if len(json.dumps(s, default=_default)) > 20000:
                    s = {"note": "sample larger than 20 kB omitted", "keys": sorted(s) if isinstance(s, dict) else None}
            except Exception:
                s = {"note": "unserialisable sample omitted"}
            self.samples.append(s)

    def violation(self, w):
        """w: dict with at least prop, kind, detail and a reproducible case ('call' or 'model'...)."""
        self.violation_total += 1
        if len(self.violations) < 400:
            self.violations.append(w)

    def need(self, key, minimum, what=None):
        """Asserts a monitor counter reached a minimum, else the run is inconclusive."""
        self.extra.setdefault("monitor_minimums", {})[key] = [int(self.counters.get(key, 0)), int(minimum)]
        if self.counters.get(key, 0) < minimum:
            self.inconclusive.append("%s: monitor counter %s = %d < %d" % (
                what or "coverage", key, self.counters.get(key, 0), minimum))

    def job_problem(self, job):
        """Crashed / timed-out child: inconclusive (a wall-clock cap is never a verdict)."""
        tail = (job.stderr or "").strip().splitlines()[-6:]
        # an exception that escapes from the code under test on an in-contract workload is not a harness problem: the
        # operation raised instead of delivering what the property promises (innermost traceback frame inside the tree)
        import re

        from framework import common

        frames = re.findall(r'^  File "([^"]+)", line (\d+), in (\S+)', job.stderr or "", flags=re.M)
        last = tail[-1] if tail else ""
        if job.status == "crash" and frames and frames[-1][0].startswith(os.path.join(common.TREE, "nucs") + os.sep) \
                and re.match(r"^[A-Za-z_.]*(Error|Exception)\b", last):
            f, ln, fn = frames[-1]
            self.violation({"prop": self.prop, "kind": "exception_in_code_under_test:" + last.split(":")[0],
                            "detail": "%s raised at %s:%s (%s) on an in-contract input of job %s" % (
                                last[:200], os.path.relpath(f, common.TREE), ln, fn, job.tag or job.func),
                            "input": getattr(job, "stalled_case", None), "mode": job.mode})
            return
        self.inconclusive.append("job %s %s/%s %s after %.0fs: %s" % (
            job.tag or "", job.module, job.func, job.status, job.wall, " | ".join(tail)[-600:]))

    # -------------------------------------------------------------- finalisation
    def finish(self):
        known_lines = []
        groups = {}
        for w in self.violations:
            mech = findings.classify(self.prop, w)
            if mech is not None:
                key = mech
                if key not in groups:
                    groups[key] = {"known": mech, "witnesses": [], "n": 0}
            else:
                key = "V|" + findings.group_key(w)
                if key not in groups:
                    groups[key] = {"known": None, "witnesses": [], "n": 0}
            g = groups[key]
            g["n"] += 1
            if len(g["witnesses"]) < 5:
                g["witnesses"].append(w)
        viol_lines = []
        n_viol = 0
        for key, g in sorted(groups.items()):
            w0 = min(g["witnesses"], key=lambda w: len(canon(w)))
            if g["known"] is not None:
                known_lines.append("KNOWN-FINDING: property=%s %s: %s" % (
                    self.prop, g["known"], findings.short(w0)))
            else:
                n_viol += g["n"]
                os.makedirs(os.path.join(REPLAY_DIR, self.prop), exist_ok=True)
                path = os.path.join(REPLAY_DIR, self.prop, case_hash(w0) + ".json")
                with open(path, "w") as f:
                    json.dump({"property": self.prop, "tier": self.tier, "seed": self.seed, "witness": w0,
                               "more": g["witnesses"][1:], "occurrences": g["n"]}, f, indent=1)
                viol_lines.append((path, w0, g["n"]))
        wall = time.time() - self.t0
        status = "held"
        if viol_lines:
            status = "violated"
        elif self.inconclusive:
            status = "inconclusive"
        cov = {
            "evaluations": int(self.evaluations),
            "distinct_nontrivial": int(len(self.distinct)) if isinstance(self.distinct, (set, list)) else int(
                self.distinct),
            "rule": self.rule,
            "samples": self.samples[:10] or [{"note": "no sample recorded"}],
            "classes": self.classes,
            "monitor_counters": self.counters,
            "verdict": status,
            "inconclusive_reasons": self.inconclusive[:20],
            "known_findings_printed": known_lines,
            "violation_groups": [{"replay": p, "occurrences": n, "kind": w.get("kind"), "detail": w.get("detail")}
                                 for p, w, n in viol_lines][:50],
        }
        if self.exhaustive is not None:
            cov["exhaustive"] = bool(self.exhaustive)
        cov.update(self.extra)
        ev = {
            "property_id": self.prop, "tier": self.tier, "seed": int(self.seed), "level": self.level,
            "coverage": cov, "assumptions": self.assumptions, "wall_s": round(wall, 2),
            "violations": int(n_viol),
        }
        if len(json.dumps(ev, default=_default)) > 1500000:  # evidence must stay a readable record
            for k in ("violation_groups", "known_findings_printed", "inconclusive_reasons"):
                cov[k] = [str(x)[:600] for x in cov.get(k, [])][:20]
            cov["samples"] = [x if len(json.dumps(x, default=_default)) < 5000 else {"note": "omitted (large)"}
                              for x in cov["samples"]]
        os.makedirs(EVIDENCE_DIR, exist_ok=True)
        tmp = os.path.join(EVIDENCE_DIR, self.prop + ".json.tmp")
        with open(tmp, "w") as f:
            json.dump(ev, f, indent=1, sort_keys=True, default=_default)
        os.replace(tmp, os.path.join(EVIDENCE_DIR, self.prop + ".json"))
        for l in known_lines:
            print(l)
        for n in self.notes:
            print("NOTE: " + n)
        for p, w, n in viol_lines[:25]:
            print("VIOLATION property=%s replay=%s" % (self.prop, p))
            print("  witness (%d occurrence(s)): %s -- %s" % (n, findings.short(w), w.get("detail", "")[:400]))
        print("%s %s tier=%s seed=%d evaluations=%d distinct_nontrivial=%d wall=%.1fs -> %s" % (
            self.prop, self.level, self.tier, self.seed, cov["evaluations"], cov["distinct_nontrivial"], wall,
            status.upper()))
        if status == "inconclusive":
            for r in self.inconclusive[:10]:
                print("INCONCLUSIVE: " + r)
        sys.stdout.flush()
        return {"held": 0, "violated": 1, "inconclusive": 2}[status]


def _default(o):
    try:
        import numpy as np

        if isinstance(o, np.integer):
            return int(o)
        if isinstance(o, np.ndarray):
            return o.tolist()
    except Exception:
        pass
    if isinstance(o, (set, tuple)):
        return list(o)
    return str(o)

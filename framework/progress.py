"""Per-case progress marker: lets the parent identify the case a child was executing when it stalled
(SIGALRM cannot interrupt nopython code, so only the parent can watch a compiled-mode hang)."""
import json
import os

_PATH = os.environ.get("NUCS_VERIF_PROGRESS")


LAST = [None]


def mark(obj):
    LAST[0] = obj
    if not _PATH:
        return
    tmp = _PATH + ".tmp"
    with open(tmp, "w") as f:
        json.dump(obj, f)
    os.replace(tmp, _PATH)


_LAST_FLUSH = [0.0]


def flush(result, every=10.0):
    """Atomically publishes a partial result so that a later stall does not lose what was already judged."""
    import time

    out = os.environ.get("NUCS_VERIF_OUT")
    if not out:
        return
    now = time.time()
    if now - _LAST_FLUSH[0] < every:
        return
    _LAST_FLUSH[0] = now
    r = dict(result)
    r["partial"] = True
    tmp = out + ".tmp"
    with open(tmp, "w") as f:
        json.dump(r, f)
    os.replace(tmp, out)


def touch():
    if _PATH:
        try:
            os.utime(_PATH, None)
        except OSError:
            pass

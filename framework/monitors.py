"""Monitors for plane A (subscribe to framework.planes.interp.HUB). Each counts its own evaluations."""
import numpy as np

from framework import callcheck
from framework import oracles as O
from framework.planes.linebudget import BudgetExceeded, LineBudget, line_limit, propagator_modules

MIN, MAX = 0, 1
EV_MIN, EV_MAX, EV_GROUND = 1, 2, 4


class MonitorViolation(Exception):
    """Raised by a monitor to abort a run on the first violation of an invariant that makes going on pointless."""

    def __init__(self, prop, kind, detail):
        super().__init__("%s %s: %s" % (prop, kind, detail))
        self.prop, self.kind, self.detail = prop, kind, detail


class Base:
    def __init__(self):
        self.fails = []  # dicts {prop, kind, detail, ...}
        self.counts = {}

    def c(self, k, n=1):
        self.counts[k] = self.counts.get(k, 0) + n

    def fail(self, prop, kind, detail, **kw):
        self.c("fail.%s.%s" % (prop, kind))
        if len(self.fails) < 30:
            d = {"prop": prop, "kind": kind, "detail": detail}
            d.update(kw)
            self.fails.append(d)


# ================================================================================================ C04 step budgets
class StepBudget(Base):
    """Logical bounded-progress budgets (DESIGN C04). Raises BudgetExceeded out of the engine."""

    def __init__(self, hub, model, scale=1, use_lines=True, objective_width=None, trace_len=200):
        super().__init__()
        self.scale = scale
        self.hub_ref = hub
        doms = model["doms"]
        self.nprops = max(1, len(model["props"]))
        self.P = 1
        for a, b in doms:
            self.P *= max(1, b - a + 1)
        self.total_size = sum(max(1, b - a + 1) for a, b in doms)
        self.ndoms = len(doms)
        self.pass_limit = scale * 4 * (self.total_size * self.nprops + self.nprops)
        self.choice_limit = scale * (2 * self.P + 8)
        self.probe_limit = scale * 4 * (2 * self.total_size + 2 * self.ndoms)
        self.restart_limit = None if objective_width is None else scale * (objective_width + 3)
        self.in_pass = 0
        self.execs_in_pass = 0
        self.choices = 0
        self.bt_search = 0
        self.bt_shaving = 0
        self.outer_algs = 0
        self.probes_in_alg = 0
        self.inner_bc_in_alg = 0
        self.solve_ones = 0
        self.trace = []
        self.trace_len = trace_len
        self.max_execs_in_pass = 0
        self.lb = None
        if use_lines:
            self.lb = LineBudget()
            self.lb.install(propagator_modules())
        hub.linebudget = self.lb
        hub.on("alg_enter", self.alg_enter)
        hub.on("alg_exit", self.alg_exit)
        hub.on("prop_enter", self.prop_enter)
        hub.on("prop_exit", self.prop_exit)
        hub.on("dom_exit", self.dom_exit)
        hub.on("bt_exit", self.bt_exit)
        hub.on("shave_enter", self.shave_enter)
        hub.on("solve_one_enter", self.solve_one_enter)

    def close(self):
        if self.lb is not None:
            self.counts["max_lines_in_one_call"] = self.lb.max_seen
            self.lb.uninstall()
            self.lb = None
        self.hub_ref.linebudget = None

    def _tr(self, *e):
        self.trace.append(e)
        if len(self.trace) > 2 * self.trace_len:
            del self.trace[: self.trace_len]

    def _over(self, what, count, limit):
        raise BudgetExceeded(what, count, limit)

    cut_after_passes = None  # workload cap for partial runs on large models: not a verdict (reported as 'cut-off')

    def alg_enter(self, idx, args, inner):
        from framework import progress

        progress.touch()  # the case is alive: passes keep coming (the stall watchdog looks at this file's mtime)
        if not inner:
            self.outer_algs += 1
            if self.cut_after_passes is not None and self.outer_algs > self.cut_after_passes:
                raise BudgetExceeded("cut-off: workload cap on passes of a partial run", self.outer_algs,
                                     self.cut_after_passes)
            self.probes_in_alg = 0
            self.inner_bc_in_alg = 0
            lim = self.scale * (2 * (1 + self.choices + self.bt_search) + 8)
            if self.outer_algs > lim:
                self._over("propagation passes requested by the search loop", self.outer_algs, lim)
        else:
            self.inner_bc_in_alg += 1
            lim = 2 * self.probe_limit + 4
            if self.inner_bc_in_alg > lim:
                self._over("bound-consistency passes inside one shaving call", self.inner_bc_in_alg, lim)
        self.in_pass += 1
        self.execs_in_pass = 0
        self.c("passes")

    def alg_exit(self, idx, args, status, inner):
        self.in_pass -= 1

    def prop_enter(self, alg, domains, params):
        self.execs_in_pass += 1
        self.c("prop_execs")
        if self.execs_in_pass > self.max_execs_in_pass:
            self.max_execs_in_pass = self.execs_in_pass
        self._tr("exec", int(alg))
        if self.execs_in_pass > self.pass_limit:
            self._over("constraint executions in one propagation pass", self.execs_in_pass, self.pass_limit)
        if self.lb is not None:
            self.lb.begin(self.scale * line_limit(len(domains), len(params)))

    def prop_exit(self, alg, before, after, params, status):
        if self.lb is not None:
            self.lb.end()

    def dom_exit(self, idx, args, events, where):
        if where == "search":
            self.choices += 1
            self._tr("choice", int(args[5]))
            if self.choices > self.choice_limit:
                self._over("branching decisions in one enumeration (product of domain sizes %d)" % self.P,
                           self.choices, self.choice_limit)

    def bt_exit(self, args, ok, where):
        if where == "search":
            if ok:
                self.bt_search += 1
            lim = 2 * self.choices + 4 + self.scale * 4
            if self.bt_search > lim:
                self._over("backtracks vs choices", self.bt_search, lim)
        else:
            self.bt_shaving += 1

    def shave_enter(self, bound, dom_idx, args):
        self.probes_in_alg += 1
        self.c("shaving_probes")
        if self.probes_in_alg > self.probe_limit:
            self._over("shaving probes inside one shaving call", self.probes_in_alg, self.probe_limit)

    def solve_one_enter(self, args):
        self.solve_ones += 1
        if self.restart_limit is not None and self.solve_ones > self.restart_limit:
            self._over("restarts of branch-and-bound", self.solve_ones, self.restart_limit)

    def summary(self):
        d = dict(self.counts)
        d.update(choices=self.choices, backtracks_search=self.bt_search, outer_passes=self.outer_algs,
                 max_execs_in_one_pass=self.max_execs_in_pass, pass_limit=self.pass_limit,
                 choice_limit=self.choice_limit)
        return d


# ======================================================================= C05/C06/C07/C14 on in-engine executions
class CallJudge(Base):
    def __init__(self, hub, name_of, hull_limit=2000, second_call=True, cache=None):
        super().__init__()
        self.hub = hub
        self.name_of = name_of
        self.hull_limit = hull_limit
        self.cache = cache if cache is not None else {}
        self.second = second_call
        self.seen = set()
        hub.on("prop_exit", self.prop_exit)
        import nucs.propagators.propagators as PP

        self.PP = PP

    def prop_exit(self, alg, before, after, params, status):
        name = self.name_of.get(int(alg))
        if name is None:
            return
        box = before.tolist()
        out = after.tolist()
        p = params.tolist()
        key = (name, tuple(map(tuple, box)), tuple(p))
        self.c("judged")
        if key in self.seen:
            return
        self.seen.add(key)
        second = None
        if self.second and status != 0 and name in O.BC_TYPES and callcheck.nonempty(out):
            f = self.PP.COMPUTE_DOMAINS_FCTS[int(alg)]
            f = getattr(f, "__wrapped__", f)
            d2 = after.copy()
            lb = getattr(self.hub, "linebudget", None)
            try:
                if lb is not None:
                    lb.begin(line_limit(len(box), len(p)))
                try:
                    st2 = int(f(d2, params))
                finally:
                    if lb is not None:
                        lb.end()
                second = (st2, d2.tolist())
            except BudgetExceeded as e:
                second = None
                self.fail("C14", "second_call_did_not_complete", str(e), call={"name": name, "box": out, "params": p},
                          status=int(status), out=out)
                self.fail("C04", "propagator_step_budget", str(e), call={"name": name, "box": out, "params": p},
                          status=int(status), out=out)
            except Exception:
                second = None
        fails, facts = callcheck.judge(name, box, p, int(status), out, second, hull_limit=self.hull_limit,
                                       hull_cache=self.cache)
        self.c("distinct_judged")
        if facts["hull"]:
            self.c("hull_decided")
        if facts["entail_checked"]:
            self.c("entail_checked")
        if status != 0 and callcheck.is_point(out):
            self.c("point_outputs")
        self.c("status.%s:%d" % (name, int(status)))
        for f in fails:
            self.fail(f["prop"], f["kind"], f["detail"], call={"name": name, "box": box, "params": p},
                      status=int(status), out=out)

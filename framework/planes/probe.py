"""Plane B: in-engine probe in compiled mode (DESIGN.md section 2).

Two @njit consistency algorithms registered through the public extension API wrap the real bound_consistency_algorithm
and shaving_consistency_algorithm and check, in nopython code and after every pass: stack pointer unchanged, every domain
non-empty and contained in its entry value, and - by re-executing every still-enabled constraint through the same address
table on a copy - that the pass stopped at a common fixpoint. Verdict counters live in extra slots of the statistics array
(the harness swaps solver.statistics for a longer int64 array; the engine only touches slots 0..12).
"""
import numpy as np
from numba import njit

from nucs.constants import (
    MAX, MIN, PROBLEM_INCONSISTENT, PROP_INCONSISTENCY, RG_END, RG_START, STATS_MAX, TYPE_COMPUTE_DOMAINS,
)
from nucs.numba_helper import function_from_address
from nucs.propagators.propagators import ALG_AFFINE_EQ, ALG_NO_SUB_CYCLE
from nucs.solvers.bound_consistency_algorithm import bound_consistency_algorithm
from nucs.solvers.shaving_consistency_algorithm import shaving_consistency_algorithm

X = STATS_MAX
SLOTS = 16
(S_PASSES, S_GROW, S_EMPTY, S_REEXEC, S_NOTFIX, S_KNOWN_AFFINE, S_TOP, S_REFAIL, S_SH_PASSES, S_SH_GROW, S_SH_EMPTY,
 S_SH_TOP, S_AFFINE_NOTQ, S_LIMIT, S_CUT, S_AFFINE_REFAIL_NOTQ) = range(SLOTS)
NAMES = ["bc_passes_monitored", "domain_grew", "empty_domain_after_consistent_pass", "reexecutions",
         "not_a_fixpoint", "not_a_fixpoint_affine_eq_still_queued", "stack_pointer_changed", "reexecution_fails",
         "shaving_calls_monitored", "shaving_domain_grew", "shaving_empty_domain", "shaving_stack_pointer_changed",
         "not_a_fixpoint_affine_eq_not_queued", "pass_limit", "passes_cut_off",
         "reexecution_fails_affine_eq_not_queued"]
_AFFINE_EQ = ALG_AFFINE_EQ
_NO_SUB_CYCLE = ALG_NO_SUB_CYCLE


@njit(cache=False)
def _after_pass(statistics, algorithms, var_bounds, param_bounds, props_dom_indices, props_dom_offsets, props_parameters,
                shr_domains_stack, not_entailed_propagators_stack, triggered_propagators, compute_domains_addrs, top,
                before, reexec):
    after = shr_domains_stack[top]
    bad = False
    for d in range(len(after)):
        if after[d, MIN] < before[d, MIN] or after[d, MAX] > before[d, MAX]:
            statistics[X + S_GROW] += 1
            bad = True
        if after[d, MIN] > after[d, MAX]:
            statistics[X + S_EMPTY] += 1
            bad = True
    if bad or not reexec:
        return
    for prop_idx in range(len(algorithms)):
        if not_entailed_propagators_stack[top, prop_idx]:
            s = var_bounds[prop_idx, RG_START]
            e = var_bounds[prop_idx, RG_END]
            idx = props_dom_indices[s:e]
            off = props_dom_offsets[s:e]
            dom = shr_domains_stack[top, idx] + off
            ref = dom.copy()
            f = function_from_address(TYPE_COMPUTE_DOMAINS, compute_domains_addrs[algorithms[prop_idx]])
            st = f(dom, props_parameters[param_bounds[prop_idx, RG_START]:param_bounds[prop_idx, RG_END]])
            statistics[X + S_REEXEC] += 1
            if algorithms[prop_idx] == _AFFINE_EQ and triggered_propagators[prop_idx]:
                # still queued at the end of a consistent pass = it ran last and was skipped by the 'previous' rule
                if st == PROP_INCONSISTENCY or not np.array_equal(dom, ref):
                    statistics[X + S_KNOWN_AFFINE] += 1
            elif st == PROP_INCONSISTENCY and algorithms[prop_idx] == _AFFINE_EQ:
                # one more round of affine_eq reaches the infeasible point; not queued = the re-run owed by the skip-self rule
                # was lost across a choice point, or a genuine missed wake-up: plane B cannot tell (plane A does)
                statistics[X + S_AFFINE_REFAIL_NOTQ] += 1
            elif st == PROP_INCONSISTENCY:
                statistics[X + S_REFAIL] += 1
            elif algorithms[prop_idx] == _AFFINE_EQ and not np.array_equal(dom, ref):
                statistics[X + S_AFFINE_NOTQ] += 1
            elif algorithms[prop_idx] != _NO_SUB_CYCLE and not np.array_equal(dom, ref):
                statistics[X + S_NOTFIX] += 1


@njit(cache=False)
def probe_bc(statistics, algorithms, var_bounds, param_bounds, dom_indices_arr, dom_offsets_arr, props_dom_indices,
             props_dom_offsets, props_parameters, triggers, shr_domains_stack, not_entailed_propagators_stack,
             dom_update_stack, stacks_top, triggered_propagators, compute_domains_addrs, decision_domains):
    if statistics[X + S_LIMIT] > 0 and statistics[X + S_PASSES] + statistics[X + S_SH_PASSES] >= statistics[X + S_LIMIT]:
        # logical pass budget (bounded runs on large models): from here on every pass fails, the search unwinds
        statistics[X + S_CUT] += 1
        return PROBLEM_INCONSISTENT
    top = stacks_top[0]
    before = shr_domains_stack[top].copy()
    status = bound_consistency_algorithm(
        statistics, algorithms, var_bounds, param_bounds, dom_indices_arr, dom_offsets_arr, props_dom_indices,
        props_dom_offsets, props_parameters, triggers, shr_domains_stack, not_entailed_propagators_stack,
        dom_update_stack, stacks_top, triggered_propagators, compute_domains_addrs, decision_domains)
    statistics[X + S_PASSES] += 1
    if stacks_top[0] != top:
        statistics[X + S_TOP] += 1
    elif status != PROBLEM_INCONSISTENT:
        _after_pass(statistics, algorithms, var_bounds, param_bounds, props_dom_indices, props_dom_offsets,
                    props_parameters, shr_domains_stack, not_entailed_propagators_stack, triggered_propagators,
                    compute_domains_addrs, top, before, True)
    return status


@njit(cache=False)
def probe_shaving(statistics, algorithms, var_bounds, param_bounds, dom_indices_arr, dom_offsets_arr, props_dom_indices,
                  props_dom_offsets, props_parameters, triggers, shr_domains_stack, not_entailed_propagators_stack,
                  dom_update_stack, stacks_top, triggered_propagators, compute_domains_addrs, decision_domains):
    if statistics[X + S_LIMIT] > 0 and statistics[X + S_PASSES] + statistics[X + S_SH_PASSES] >= statistics[X + S_LIMIT]:
        # logical pass budget (bounded runs on large models): from here on every pass fails, the search unwinds
        statistics[X + S_CUT] += 1
        return PROBLEM_INCONSISTENT
    top = stacks_top[0]
    before = shr_domains_stack[top].copy()
    status = shaving_consistency_algorithm(
        statistics, algorithms, var_bounds, param_bounds, dom_indices_arr, dom_offsets_arr, props_dom_indices,
        props_dom_offsets, props_parameters, triggers, shr_domains_stack, not_entailed_propagators_stack,
        dom_update_stack, stacks_top, triggered_propagators, compute_domains_addrs, decision_domains)
    statistics[X + S_SH_PASSES] += 1
    if stacks_top[0] != top:
        statistics[X + S_SH_TOP] += 1
    elif status != PROBLEM_INCONSISTENT:
        after = shr_domains_stack[top]
        for d in range(len(after)):
            if after[d, MIN] < before[d, MIN] or after[d, MAX] > before[d, MAX]:
                statistics[X + S_SH_GROW] += 1
            if after[d, MIN] > after[d, MAX]:
                statistics[X + S_SH_EMPTY] += 1
    return status


_IDX = {}


def register():
    """Registers both probes once per process; returns {'bc': idx, 'shaving': idx}."""
    if not _IDX:
        from nucs.solvers.consistency_algorithms import register_consistency_algorithm

        _IDX["bc"] = register_consistency_algorithm(probe_bc)
        _IDX["shaving"] = register_consistency_algorithm(probe_shaving)
    return _IDX


def arm(solver, pass_limit=0):
    solver.statistics = np.zeros(STATS_MAX + SLOTS, dtype=np.int64)
    solver.statistics[X + S_LIMIT] = pass_limit


def read(solver):
    return {NAMES[i]: int(solver.statistics[X + i]) for i in range(SLOTS)}

"""Plane D: source-level bounds sanitizer under interpretation (DESIGN.md section 2).

An import hook re-compiles every nucs module from the tree under test with each non-literal Subscript index rewritten
to a[vchk_(a, idx, site)]. vchk_ verifies per axis: integer indices in [0, len), index arrays within range, slice
bounds within [0, len]. It flags what neither NumPy nor NUMBA_BOUNDSCHECK does: a computed negative index (silent
wrap-around) and a clamped slice. Must be installed before nucs is imported.
"""
import ast
import builtins
import collections
import copy
import importlib.abc
import os
import sys

import numpy as np

SITES = {}
HITS = collections.Counter()
REPORTS = []
CONTEXT = [None]  # the case being executed, attached to reports
MAX_REPORTS = 200


def _report(kind, site, value, shape):
    if len(REPORTS) < MAX_REPORTS:
        REPORTS.append({"kind": kind, "site": site, "expr": SITES.get(site), "value": int(value),
                        "shape": [int(x) for x in shape], "context": CONTEXT[0]})


def _chk_axis(n, ix, site, shape):
    if isinstance(ix, (bool, np.bool_)):
        return
    if isinstance(ix, (int, np.integer)):
        v = int(ix)
        if v < 0:
            _report("negative_index", site, v, shape)
        elif v >= n:
            _report("index_out_of_bounds", site, v, shape)
    elif isinstance(ix, slice):
        for b in (ix.start, ix.stop):
            if b is not None:
                v = int(b)
                if v < 0 or v > n:
                    _report("slice_bound_clamped", site, v, shape)
    elif isinstance(ix, np.ndarray) and ix.dtype != np.bool_ and ix.size:
        lo, hi = int(ix.min()), int(ix.max())
        if lo < 0:
            _report("negative_index", site, lo, shape)
        if hi >= n:
            _report("index_out_of_bounds", site, hi, shape)


def vchk_(a, idx, site):
    HITS[site] += 1
    if isinstance(a, np.ndarray):
        if isinstance(idx, tuple):
            ax = 0
            for ix in idx:
                if ix is None or ix is Ellipsis:
                    continue
                if ax < a.ndim:
                    _chk_axis(a.shape[ax], ix, site, a.shape)
                ax += 1
        elif a.ndim:
            _chk_axis(a.shape[0], idx, site, a.shape)
    elif isinstance(a, (list, tuple)) and isinstance(idx, (int, np.integer)):
        if int(idx) < 0:
            _report("negative_index", site, int(idx), (len(a),))
        elif int(idx) >= len(a):
            _report("index_out_of_bounds", site, int(idx), (len(a),))
    return idx


def _is_lit(node):
    if isinstance(node, ast.Constant):
        return True
    if isinstance(node, ast.UnaryOp) and isinstance(node.op, ast.USub) and isinstance(node.operand, ast.Constant):
        return True  # a literal negative index is the author's deliberate "from the end"
    if isinstance(node, ast.Name) and node.id.isupper():
        return True  # MIN / MAX / RG_START ... module constants
    if isinstance(node, ast.Slice):
        return all(x is None or _is_lit(x) for x in (node.lower, node.upper, node.step))
    if isinstance(node, ast.Tuple):
        return all(_is_lit(e) for e in node.elts)
    return False


def _load(node):
    c = copy.deepcopy(node)
    for x in ast.walk(c):
        if hasattr(x, "ctx"):
            x.ctx = ast.Load()
    return c


class _T(ast.NodeTransformer):
    def __init__(self, mod):
        self.mod = mod

    def visit_AnnAssign(self, n):
        if n.value is not None:
            n.value = self.visit(n.value)
        n.target = self.visit(n.target)
        return n

    def visit_arguments(self, n):
        return n  # annotations / defaults untouched

    def visit_FunctionDef(self, n):
        n.body = [self.visit(b) for b in n.body]
        return n  # decorators and return annotation untouched

    def visit_Subscript(self, n):
        self.generic_visit(n)
        if _is_lit(n.slice):
            return n
        site = "%s:%d:%d" % (self.mod, n.lineno, n.col_offset)
        SITES[site] = ast.unparse(n)
        n.slice = ast.Call(func=ast.Name(id="vchk_", ctx=ast.Load()), args=[_load(n.value), n.slice, ast.Constant(site)],
                           keywords=[])
        return n


class _Loader(importlib.abc.Loader):
    def __init__(self, path, name):
        self.path, self.name = path, name

    def create_module(self, spec):
        return None

    def exec_module(self, module):
        with open(self.path) as f:
            src = f.read()
        tree = ast.parse(src, self.path)
        tree = _T(self.name).visit(tree)
        ast.fix_missing_locations(tree)
        exec(compile(tree, self.path, "exec"), module.__dict__)


class _Finder(importlib.abc.MetaPathFinder):
    def find_spec(self, name, path, target=None):
        if not (name == "nucs" or name.startswith("nucs.")):
            return None
        for f in sys.meta_path:
            if f is self or not hasattr(f, "find_spec"):
                continue
            spec = f.find_spec(name, path, target)
            if spec is None:
                continue
            if spec.origin and spec.origin.endswith(".py") and "/nucs/" in spec.origin and \
                    "examples/tsp/tsp_instances" not in spec.origin and not spec.origin.endswith("__init__.py"):
                spec.loader = _Loader(spec.origin, name)
            return spec
        return None


def install():
    assert "nucs" not in sys.modules, "the sanitizer must be installed before nucs is imported"
    assert os.environ.get("NUMBA_DISABLE_JIT"), "plane D runs under interpretation"
    builtins.__dict__["vchk_"] = vchk_
    sys.meta_path.insert(0, _Finder())


def summary():
    by_mod = collections.defaultdict(lambda: [0, 0])
    for s in SITES:
        m = s.split(":")[0]
        by_mod[m][1] += 1
        if HITS.get(s):
            by_mod[m][0] += 1
    unreached = sorted(s for s in SITES if not HITS.get(s))
    return {"sites": len(SITES), "reached": sum(1 for s in SITES if HITS.get(s)),
            "by_module": {m: "%d/%d" % (a, b) for m, (a, b) in sorted(by_mod.items())},
            "unreached": [{"site": s, "expr": SITES[s]} for s in unreached], "index_evaluations": sum(HITS.values()),
            "reached_sites": sorted(s for s in SITES if HITS.get(s))}

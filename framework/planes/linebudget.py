"""Logical step budget inside one propagator call (plane A): counts executed lines of the propagator modules'
code objects through sys.monitoring local LINE events and raises BudgetExceeded past the limit.

Only meaningful under NUMBA_DISABLE_JIT=1 (the functions are then ordinary Python functions).
"""
import sys
import types


class BudgetExceeded(Exception):
    def __init__(self, what, count, limit):
        super().__init__("%s: %d > %d" % (what, count, limit))
        self.what, self.count, self.limit = what, count, limit


TOOL_ID = 4
_mon = sys.monitoring


class LineBudget:
    def __init__(self):
        self.codes = []
        self.count = 0
        self.limit = 1 << 62
        self.active = False
        self.max_seen = 0

    def install(self, modules):
        """modules: iterable of module objects whose function code objects are to be counted."""
        if _mon.get_tool(TOOL_ID) is None:
            _mon.use_tool_id(TOOL_ID, "nucs-verif-linebudget")
        seen = set()
        for m in modules:
            for v in list(vars(m).values()):
                f = getattr(v, "py_func", v)
                if isinstance(f, types.FunctionType) and f.__module__ == m.__name__ and f.__code__ not in seen:
                    seen.add(f.__code__)
                    self.codes.append(f.__code__)
        _mon.register_callback(TOOL_ID, _mon.events.LINE, self._on_line)
        for c in self.codes:
            _mon.set_local_events(TOOL_ID, c, _mon.events.LINE)
        self.active = True

    def _on_line(self, code, line):
        self.count += 1
        if self.count > self.limit:
            c, l = self.count, self.limit
            self.limit = 1 << 62  # do not raise again while unwinding
            raise BudgetExceeded("lines inside one propagator call (%s:%d)" % (code.co_name, line), c, l)

    def begin(self, limit):
        self.count = 0
        self.limit = limit

    def end(self):
        self.limit = 1 << 62
        if self.count > self.max_seen:
            self.max_seen = self.count
        return self.count

    def uninstall(self):
        if not self.active:
            return
        for c in self.codes:
            _mon.set_local_events(TOOL_ID, c, 0)  # 3.12.1: free_tool_id does not clear local events
        _mon.register_callback(TOOL_ID, _mon.events.LINE, None)
        _mon.free_tool_id(TOOL_ID)
        self.active = False


def propagator_modules():
    import importlib
    import pkgutil

    import nucs.propagators as pkg

    mods = []
    for info in pkgutil.iter_modules(pkg.__path__):
        if info.name.endswith("_propagator"):
            mods.append(importlib.import_module("nucs.propagators." + info.name))
    return mods


def line_limit(n, nparams):
    """Generous polynomial bound on lines executed by one correct propagator call (DESIGN C04)."""
    k = n + nparams
    return 2000 + 120 * k * k

"""Plane E(ii)+(iii): real worker processes with injected delays / faults, and the structural deadlock oracle.

The start method is fork, so children inherit the wrappers installed here; nothing in /repo is edited.
"""
import multiprocessing
import os
import signal
import sys
import threading
import time

_PLAN = {"delays": {}, "fault": None}
_INSTALLED = [False]


class _QueueProxy:
    """Wraps the real multiprocessing.Queue inside the worker: counts messages, sleeps, dies at a chosen point."""

    def __init__(self, q, widx):
        self.q, self.widx, self.n = q, widx, 0

    def _settle(self):
        # make the crash point well defined: everything already put has left the feeder thread
        q = self.q
        t0 = time.time()
        try:
            while len(q._buffer) and time.time() - t0 < 5:
                time.sleep(0.001)
            q._wlock.acquire()
            q._wlock.release()
        except Exception:
            time.sleep(0.05)

    def _die(self, manner):
        if manner == "sigkill":
            self._settle()
            os.kill(os.getpid(), signal.SIGKILL)
        elif manner == "exit1":
            self._settle()
            os._exit(1)
        elif manner == "exit0":
            self._settle()
            os._exit(0)
        else:
            raise RuntimeError("injected worker failure")

    def put(self, msg):
        f = _PLAN.get("fault")
        is_marker = msg[1] is None
        if f and f["worker"] == self.widx:
            if f["point"] == "before_marker" and is_marker:
                self._die(f["manner"])
            if f["point"] == "before_message" and self.n == f["index"]:
                self._die(f["manner"])
        d = _PLAN["delays"].get(str(self.widx)) or _PLAN["delays"].get(self.widx)
        if d:
            time.sleep(d[self.n % len(d)])
        self.q.put(msg)
        self.n += 1
        if f and f["worker"] == self.widx and f["point"] == "after_message" and self.n - 1 == f["index"]:
            self._die(f["manner"])


def install():
    if _INSTALLED[0]:
        return
    from nucs.solvers.backtrack_solver import BacktrackSolver

    orig_solve = BacktrackSolver.solve_and_queue
    orig_opt = BacktrackSolver.optimize_and_queue

    def solve_and_queue(self, processor_idx, solution_queue):
        f = _PLAN.get("fault")
        if f and f["worker"] == processor_idx and f["point"] == "at_start":
            _QueueProxy(solution_queue, processor_idx)._die(f["manner"])
        return orig_solve(self, processor_idx, _QueueProxy(solution_queue, processor_idx))

    def optimize_and_queue(self, variable_idx, update_domain_fct, processor_idx, solution_queue):
        f = _PLAN.get("fault")
        if f and f["worker"] == processor_idx and f["point"] == "at_start":
            _QueueProxy(solution_queue, processor_idx)._die(f["manner"])
        return orig_opt(self, variable_idx, update_domain_fct, processor_idx,
                        _QueueProxy(solution_queue, processor_idx))

    BacktrackSolver.solve_and_queue = solve_and_queue
    BacktrackSolver.optimize_and_queue = optimize_and_queue
    _INSTALLED[0] = True


def set_plan(delays=None, fault=None):
    _PLAN["delays"] = delays or {}
    _PLAN["fault"] = fault


def _frame_in_queue_get(frame):
    """Returns (True, timeout local) when some frame of the stack is multiprocessing.queues.Queue.get."""
    f = frame
    while f is not None:
        co = f.f_code
        if co.co_name == "get" and co.co_filename.endswith(os.path.join("multiprocessing", "queues.py")):
            return True, f.f_locals.get("timeout", None), f.f_locals.get("block", True)
        f = f.f_back
    return False, None, None


def _stack_names(frame, limit=12):
    out = []
    f = frame
    while f is not None and len(out) < limit:
        out.append(f.f_code.co_name)
        f = f.f_back
    return out


def call_with_oracle(fn, wall_cap=120.0, grace=0.7, timed_patience=60.0, expected_children=None, exit_patience=None):
    """Runs fn() in a daemon thread and decides: returned / raised / deadlock / undecided.

    deadlock (structural, no deadline involved): every child process is dead, and the caller sits in
    Queue.get(timeout=None) - no producer can ever wake it up. When the caller polls with a timeout it gets
    `timed_patience` seconds after the last child's death before 'no return in bounded time' is reported.

    With expected_children=k and exit_patience=P (scenarios in which the harness *knows* that the surviving workers stay
    alive and silent for much longer than P): once all k children have been seen alive and one of them has gone, the
    caller gets P seconds to return or raise; after that the verdict is 'blocked_after_death'.
    """
    box = {}

    def run():
        try:
            box["value"] = fn()
            box["how"] = "returned"
        except BaseException as e:  # noqa
            box["how"] = "raised"
            box["exc"] = "%s: %s" % (type(e).__name__, str(e)[:200])

    t = threading.Thread(target=run, daemon=True)
    t0 = time.time()
    t.start()
    dead_since = None
    seen_all = False
    first_exit = None
    while True:
        t.join(0.05)
        if not t.is_alive():
            box["wall"] = time.time() - t0
            box["first_exit_after"] = None if first_exit is None else first_exit - t0
            _reap()
            return box
        kids = multiprocessing.active_children()
        now = time.time()
        if expected_children is not None:
            if len(kids) >= expected_children:
                seen_all = True
            elif seen_all and first_exit is None:
                first_exit = now
            if first_exit is not None and exit_patience is not None and now - first_exit > exit_patience:
                alive = len(kids)
                for k in kids:
                    try:
                        k.kill()
                    except Exception:
                        pass
                return {"how": "blocked_after_death", "wall": now - t0,
                        "blocked_in": _stack_names(sys._current_frames().get(t.ident)),
                        "detail": "a worker died %.1fs ago, %d worker(s) alive and silent, the call has neither returned "
                                  "nor raised" % (now - first_exit, alive)}
        if not kids:
            if dead_since is None:
                dead_since = now
            fr = sys._current_frames().get(t.ident)
            inget, timeout, block = _frame_in_queue_get(fr)
            if inget and timeout is None and block and now - dead_since > grace:
                # look twice: still there, still no producer
                time.sleep(0.2)
                fr = sys._current_frames().get(t.ident)
                inget2, timeout2, _ = _frame_in_queue_get(fr)
                if t.is_alive() and inget2 and timeout2 is None and not multiprocessing.active_children():
                    return {"how": "deadlock", "wall": time.time() - t0,
                            "detail": "no worker alive; caller blocked in multiprocessing.Queue.get(timeout=None)"}
            if now - dead_since > timed_patience:
                return {"how": "deadlock", "wall": time.time() - t0,
                        "detail": "no worker alive for %.0fs and the call has not returned" % timed_patience}
        else:
            dead_since = None
        if now - t0 > wall_cap:
            for k in kids:
                try:
                    k.kill()
                except Exception:
                    pass
            return {"how": "undecided", "wall": now - t0, "detail": "wall-clock cap (children still alive: %d)"
                                                                   % len(kids)}


def _reap():
    for k in multiprocessing.active_children():
        try:
            k.join(0.5)
            if k.is_alive():
                k.kill()
        except Exception:
            pass

"""Plane E(i): schedule shim for MultiprocessingSolver (DESIGN.md section 2).

nucs.solvers.multiprocessing_solver.Process / .Queue are rebound to in-process fakes. The *real* worker methods
(solve_and_queue / optimize_and_queue) produce the message streams once; the *real* reducer
(MultiprocessingSolver.solve / optimize) is then run against every interleaving of those streams chosen by the
harness. Only per-producer FIFO is assumed (what multiprocessing.Queue guarantees).
"""
import itertools

import numpy as np


class ShimDeadlock(Exception):
    """The reducer asked for a message while no producer has anything left to send."""


class RecordingQueue:
    def __init__(self):
        self.msgs = []

    def put(self, msg):
        idx, sol, stats = msg
        self.msgs.append((int(idx), None if sol is None else np.array(sol, copy=True), stats, np.array(stats,
                                                                                                      copy=True)))


def record_streams(solvers, op, var=None):
    """Runs each worker's real producer method in-process; returns per-worker lists of
    (idx, solution|None, live statistics array, snapshot at put time)."""
    streams = []
    for i, s in enumerate(solvers):
        q = RecordingQueue()
        if op == "solve":
            s.solve_and_queue(i, q)
        elif op == "minimize":
            s.minimize_and_queue(var, i, q)
        else:
            s.maximize_and_queue(var, i, q)
        streams.append(q.msgs)
    return streams


class _FakeProcess:
    def __init__(self, target=None, args=()):
        pass

    def start(self):
        pass

    def is_alive(self):
        return False

    def join(self, timeout=None):
        pass

    def terminate(self):
        pass

    def kill(self):
        pass

    exitcode = 0
    pid = 0


class _FakeQueue:
    """Serves the recorded streams in the order given by `schedule` (a list of worker ids)."""

    current = None  # (streams, schedule, stats_mode)

    def __init__(self, *a, **k):
        streams, schedule, stats_mode = _FakeQueue.current
        self.pos = [0] * len(streams)
        self.streams = streams
        self.schedule = list(schedule)
        self.k = 0
        self.stats_mode = stats_mode
        self.served = 0
        _FakeQueue.last = self

    def get(self, block=True, timeout=None):
        while self.k < len(self.schedule):
            w = self.schedule[self.k]
            self.k += 1
            if self.pos[w] < len(self.streams[w]):
                idx, sol, live, snap = self.streams[w][self.pos[w]]
                self.pos[w] += 1
                self.served += 1
                stats = np.array(snap if self.stats_mode == "snapshot" else live, copy=True)
                return (idx, None if sol is None else np.array(sol, copy=True), stats)
        if timeout is not None or not block:
            import queue

            raise queue.Empty()
        raise ShimDeadlock("reducer blocks in get() after %d messages; nothing left to deliver" % self.served)

    def get_nowait(self):
        return self.get(block=False)

    def empty(self):
        return all(self.pos[w] >= len(self.streams[w]) for w in range(len(self.streams)))

    def leftover(self):
        return sum(len(self.streams[w]) - self.pos[w] for w in range(len(self.streams)))

    def put(self, m):
        raise AssertionError("nobody puts on the shim queue")

    def close(self):
        pass

    def join_thread(self):
        pass

    def cancel_join_thread(self):
        pass


def run_reducer(solvers, streams, schedule, op, var=None, stats_mode="snapshot"):
    """Runs the real reducer against one interleaving. Returns dict(results|result, stats, leftover, error)."""
    import nucs.solvers.multiprocessing_solver as mps

    saved = (mps.Process, mps.Queue)
    mps.Process, mps.Queue = _FakeProcess, _FakeQueue
    _FakeQueue.current = (streams, schedule, stats_mode)
    _FakeQueue.last = None
    out = {"error": None}
    try:
        ms = mps.MultiprocessingSolver(solvers, log_level="ERROR")
        if op == "solve":
            out["results"] = [tuple(int(x) for x in s) for s in ms.solve()]
        elif op == "minimize":
            r = ms.minimize(var)
            out["result"] = None if r is None else tuple(int(x) for x in r)
        else:
            r = ms.maximize(var)
            out["result"] = None if r is None else tuple(int(x) for x in r)
        try:
            d = ms.get_statistics()
            out["stats"] = d
        except Exception as e:
            out["stats_error"] = "%s: %s" % (type(e).__name__, e)
    except ShimDeadlock as e:
        out["error"] = "deadlock: " + str(e)
    except Exception as e:
        out["error"] = "%s: %s" % (type(e).__name__, str(e)[:200])
    finally:
        mps.Process, mps.Queue = saved
    q = _FakeQueue.last
    out["leftover"] = q.leftover() if q is not None else None
    return out


def run_reducer_history(solvers, steps, stats_mode="snapshot"):
    """Runs several calls on ONE MultiprocessingSolver object (the real reducer, each call against its own recorded streams
    and schedule). steps: dicts {op, var, streams, schedule, abandon}: abandon = number of solutions after which the
    enumeration generator is closed by the caller (None = run to completion). Returns one outcome dict per step."""
    import nucs.solvers.multiprocessing_solver as mps

    saved = (mps.Process, mps.Queue)
    mps.Process, mps.Queue = _FakeProcess, _FakeQueue
    outs = []
    try:
        _FakeQueue.current = (steps[0]["streams"], steps[0]["schedule"], stats_mode)
        ms = mps.MultiprocessingSolver(solvers, log_level="ERROR")
        for st in steps:
            _FakeQueue.current = (st["streams"], st["schedule"], stats_mode)
            _FakeQueue.last = None
            out = {"error": None, "abandoned": False}
            try:
                if st["op"] == "solve":
                    it = ms.solve()
                    if st.get("abandon") is None:
                        out["results"] = [tuple(int(x) for x in s) for s in it]
                    else:
                        got = []
                        for s in it:
                            got.append(tuple(int(x) for x in s))
                            if len(got) >= st["abandon"]:
                                break
                        it.close()
                        out["results"] = got
                        out["abandoned"] = True
                else:
                    r = ms.minimize(st["var"]) if st["op"] == "minimize" else ms.maximize(st["var"])
                    out["result"] = None if r is None else tuple(int(x) for x in r)
                if not out["abandoned"]:
                    try:
                        out["stats"] = ms.get_statistics()
                    except Exception as e:
                        out["stats_error"] = "%s: %s" % (type(e).__name__, e)
            except ShimDeadlock as e:
                out["error"] = "deadlock: " + str(e)
            except Exception as e:
                out["error"] = "%s: %s" % (type(e).__name__, str(e)[:200])
            q = _FakeQueue.last
            out["leftover"] = q.leftover() if q is not None else None
            outs.append(out)
    finally:
        mps.Process, mps.Queue = saved
    return outs


def count_interleavings(lengths):
    from math import factorial

    n = factorial(sum(lengths))
    for l in lengths:
        n //= factorial(l)
    return n


def all_interleavings(lengths):
    """All distinct orders of the multiset {w repeated lengths[w]} (per-producer FIFO is implicit)."""
    def rec(rem, acc):
        if not any(rem):
            yield list(acc)
            return
        for w in range(len(rem)):
            if rem[w]:
                rem[w] -= 1
                acc.append(w)
                yield from rec(rem, acc)
                acc.pop()
                rem[w] += 1

    yield from rec(list(lengths), [])


def corner_schedules(lengths):
    k = len(lengths)
    out = []
    for perm in itertools.permutations(range(k)) if k <= 4 else [tuple(range(k)), tuple(reversed(range(k)))]:
        out.append([w for w in perm for _ in range(lengths[w])])  # one worker entirely before the next
    rr = []
    rem = list(lengths)
    while any(rem):
        for w in range(k):
            if rem[w]:
                rem[w] -= 1
                rr.append(w)
    out.append(rr)  # round robin
    return out


def random_schedule(lengths, rnd):
    s = [w for w, l in enumerate(lengths) for _ in range(l)]
    rnd.shuffle(s)
    return s

"""Plane A: full interposition under NUMBA_DISABLE_JIT=1 (DESIGN.md section 2).

install() rebinds, once per process, the registry entries and the by-name callees of the engine to thin wrappers
that publish events to a Hub. Monitors subscribe to events; they may raise (BudgetExceeded) and, for the queue pop,
may substitute the decision (schedule injection). Nothing in /repo is edited.

Events (callback signatures):
  alg_enter(idx, args, inner)            alg_exit(idx, args, status, inner)      consistency algorithm entry/exit
  pop(triggered, prev, prop_idx)                                                 queue pop decision (after the fact)
  prop_enter(alg, domains, params)       prop_exit(alg, before, domains, params, status)
  var_heur(idx, args, dom_idx, where)
  dom_enter(idx, args, where)            dom_exit(idx, args, events, where)      args = (params, stack, flags, upd, top, dom_idx)
  cp_put(stack, flags, top)              (after the push)
  bt_enter(args, where)                  bt_exit(args, ok, where)                args = (stats, flags, upd, top, trig, triggers)
  shave_enter(bound, dom_idx, args)      shave_exit(bound, dom_idx, args, shaved)
  solve_one_enter(args)                  solve_one_exit(args, solution)
  reset(args)                            tighten(name, args)
"""
import os
import sys

assert os.environ.get("NUMBA_DISABLE_JIT"), "plane A needs NUMBA_DISABLE_JIT=1"


class Hub:
    def __init__(self):
        self.subs = {}
        self.pop_override = None  # callable(triggered, prev) -> prop_idx, or None
        self.status_map = None  # callable(status) -> status handed to the engine (C07 differential)
        self.last_prop_idx = -1
        self.installed = False
        self.depth_alg = 0

    def on(self, event, cb):
        self.subs.setdefault(event, []).append(cb)

    def off_all(self):
        self.subs = {}
        self.pop_override = None
        self.status_map = None

    def emit(self, event, *a):
        for cb in self.subs.get(event, ()):
            cb(*a)


HUB = Hub()


def install():
    if HUB.installed:
        return HUB
    import nucs.heuristics.heuristics as H
    import nucs.heuristics.max_value_dom_heuristic as hmax
    import nucs.heuristics.min_value_dom_heuristic as hmin
    import nucs.heuristics.split_low_dom_heuristic as hsplit
    import nucs.heuristics.value_dom_heuristic as hval
    import nucs.propagators.propagators as PP
    import nucs.solvers.backtrack_solver as bs
    import nucs.solvers.bound_consistency_algorithm as bca
    import nucs.solvers.consistency_algorithms as CA
    import nucs.solvers.shaving_consistency_algorithm as sca

    hub = HUB

    # ---- propagators
    def wrap_prop(i, f):
        def w(domains, params):
            subs = hub.subs
            if "prop_enter" in subs:
                hub.emit("prop_enter", i, domains, params)
            if "prop_exit" in subs:
                before = domains.copy()
                status = f(domains, params)
                hub.emit("prop_exit", i, before, domains, params, status)
            else:
                status = f(domains, params)
            if hub.status_map is not None:
                status = hub.status_map(status)
            return status

        w.__wrapped__ = f
        w.__name__ = getattr(f, "__name__", "prop")
        return w

    for i, f in enumerate(list(PP.COMPUTE_DOMAINS_FCTS)):
        PP.COMPUTE_DOMAINS_FCTS[i] = wrap_prop(i, f)

    # ---- queue pop
    orig_pop = bca.pop_propagator

    def pop(triggered, prev):
        if hub.pop_override is not None:
            r = hub.pop_override(triggered, prev)
        else:
            r = orig_pop(triggered, prev)
        hub.last_prop_idx = r
        if "pop" in hub.subs:
            hub.emit("pop", triggered, prev, r)
        return r

    bca.pop_propagator = pop
    hub.orig_pop = orig_pop

    # ---- consistency algorithms
    def wrap_alg(i, f, inner):
        def w(*args):
            if "alg_enter" in hub.subs:
                hub.emit("alg_enter", i, args, inner)
            status = f(*args)
            if "alg_exit" in hub.subs:
                hub.emit("alg_exit", i, args, status, inner)
            return status

        w.__wrapped__ = f
        return w

    hub.orig_algs = list(CA.CONSISTENCY_ALG_FCTS)
    for i, f in enumerate(list(CA.CONSISTENCY_ALG_FCTS)):
        CA.CONSISTENCY_ALG_FCTS[i] = wrap_alg(i, f, False)
    hub.wrap_alg = wrap_alg
    sca.bound_consistency_algorithm = wrap_alg(CA.CONSISTENCY_ALG_BC, bca.bound_consistency_algorithm, True)
    hub.orig_bc = bca.bound_consistency_algorithm

    # ---- heuristics
    def wrap_var(i, f, where):
        def w(*args):
            r = f(*args)
            if "var_heur" in hub.subs:
                hub.emit("var_heur", i, args, r, where)
            return r

        w.__wrapped__ = f
        return w

    def wrap_dom(i, f, where):
        def w(*args):
            if "dom_enter" in hub.subs:
                hub.emit("dom_enter", i, args, where)
            r = f(*args)
            if "dom_exit" in hub.subs:
                hub.emit("dom_exit", i, args, r, where)
            return r

        w.__wrapped__ = f
        return w

    hub.orig_var = list(H.VAR_HEURISTIC_FCTS)
    hub.orig_dom = list(H.DOM_HEURISTIC_FCTS)
    for i, f in enumerate(list(H.VAR_HEURISTIC_FCTS)):
        H.VAR_HEURISTIC_FCTS[i] = wrap_var(i, f, "search")
    for i, f in enumerate(list(H.DOM_HEURISTIC_FCTS)):
        H.DOM_HEURISTIC_FCTS[i] = wrap_dom(i, f, "search")
    hub.wrap_var, hub.wrap_dom = wrap_var, wrap_dom
    if hasattr(sca, "min_value_dom_heuristic"):
        sca.min_value_dom_heuristic = wrap_dom(H.DOM_HEURISTIC_MIN_VALUE, sca.min_value_dom_heuristic, "shaving")
    if hasattr(sca, "max_value_dom_heuristic"):
        sca.max_value_dom_heuristic = wrap_dom(H.DOM_HEURISTIC_MAX_VALUE, sca.max_value_dom_heuristic, "shaving")
    if hasattr(sca, "first_not_instantiated_var_heuristic"):
        sca.first_not_instantiated_var_heuristic = wrap_var(
            H.VAR_HEURISTIC_FIRST_NOT_INSTANTIATED, sca.first_not_instantiated_var_heuristic, "shaving")

    # ---- choice points
    orig_put = hmin.cp_put

    def cp_put(stack, flags, top):
        orig_put(stack, flags, top)
        if "cp_put" in hub.subs:
            hub.emit("cp_put", stack, flags, top)

    for m in (hmin, hmax, hsplit, hval):
        if hasattr(m, "cp_put"):
            m.cp_put = cp_put

    def wrap_bt(f, where):
        def w(*args):
            if "bt_enter" in hub.subs:
                hub.emit("bt_enter", args, where)
            ok = f(*args)
            if "bt_exit" in hub.subs:
                hub.emit("bt_exit", args, ok, where)
            return ok

        w.__wrapped__ = f
        return w

    # by-name callees are rebound only where the module under test still has them (a refactoring may inline one)
    if hasattr(bs, "backtrack"):
        bs.backtrack = wrap_bt(bs.backtrack, "search")
    if hasattr(sca, "backtrack"):
        sca.backtrack = wrap_bt(sca.backtrack, "shaving")
    hub.missing_hooks = [n for m, n in ((bs, "backtrack"), (sca, "backtrack"), (sca, "shave_bound"),
                                        (sca, "min_value_dom_heuristic"), (sca, "max_value_dom_heuristic"),
                                        (sca, "first_not_instantiated_var_heuristic"), (bs, "solve_one"), (bs, "reset"),
                                        (bs, "decrease_max"), (bs, "increase_min")) if not hasattr(m, n)]

    orig_shave = getattr(sca, "shave_bound", None)

    def shave_bound(bound, dom_idx, *args):
        if "shave_enter" in hub.subs:
            hub.emit("shave_enter", bound, dom_idx, args)
        r = orig_shave(bound, dom_idx, *args)
        if "shave_exit" in hub.subs:
            hub.emit("shave_exit", bound, dom_idx, args, r)
        return r

    if orig_shave is not None:
        sca.shave_bound = shave_bound

    # ---- solver level
    orig_solve_one = bs.solve_one

    def solve_one(*args):
        if "solve_one_enter" in hub.subs:
            hub.emit("solve_one_enter", args)
        sol = orig_solve_one(*args)
        if "solve_one_exit" in hub.subs:
            hub.emit("solve_one_exit", args, sol)
        return sol

    bs.solve_one = solve_one

    orig_reset = bs.reset

    def reset(*args):
        orig_reset(*args)
        if "reset" in hub.subs:
            hub.emit("reset", args)

    bs.reset = reset

    def wrap_tighten(name, f):
        def w(*args):
            f(*args)
            if "tighten" in hub.subs:
                hub.emit("tighten", name, args)

        w.__wrapped__ = f
        return w

    bs.decrease_max = wrap_tighten("decrease_max", bs.decrease_max)
    bs.increase_min = wrap_tighten("increase_min", bs.increase_min)

    hub.installed = True
    return hub


def patch_late_modules():
    """Modules that import bound_consistency_algorithm by name after install() (e.g. the Golomb model)."""
    import nucs.solvers.consistency_algorithms as CA

    for name, m in list(sys.modules.items()):
        if name.startswith("nucs.examples") and hasattr(m, "bound_consistency_algorithm"):
            f = m.bound_consistency_algorithm
            if not hasattr(f, "__wrapped__"):
                m.bound_consistency_algorithm = HUB.wrap_alg(CA.CONSISTENCY_ALG_BC, f, True)


def rewrap_registries():
    """Wrap entries appended to the registries after install() (custom propagators / heuristics / algorithms)."""
    import nucs.heuristics.heuristics as H
    import nucs.propagators.propagators as PP
    import nucs.solvers.consistency_algorithms as CA

    # propagators registered later are left unwrapped on purpose (their semantics are unknown to the oracles)
    for i, f in enumerate(list(CA.CONSISTENCY_ALG_FCTS)):
        if not hasattr(f, "__wrapped__"):
            CA.CONSISTENCY_ALG_FCTS[i] = HUB.wrap_alg(i, f, False)
    for i, f in enumerate(list(H.VAR_HEURISTIC_FCTS)):
        if not hasattr(f, "__wrapped__"):
            H.VAR_HEURISTIC_FCTS[i] = HUB.wrap_var(i, f, "search")
    for i, f in enumerate(list(H.DOM_HEURISTIC_FCTS)):
        if not hasattr(f, "__wrapped__"):
            H.DOM_HEURISTIC_FCTS[i] = HUB.wrap_dom(i, f, "search")

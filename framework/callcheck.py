"""Monitor for one filtering call compute_domains_<name>(box, params): the oracles of C05, C06, C07 (call level),
C14 applied to what the real function returned. Used by direct-call workloads and, on plane A, on every
propagator execution inside engine runs.
"""
from framework import oracles as O
from framework import support

INC, CONS, ENT = 0, 1, 2
HULL_LIMIT = 20000
SAMPLES = 150


def contains(outer, inner):
    return all(o[0] <= i[0] and i[1] <= o[1] for o, i in zip(outer, inner))


def is_point(box):
    return all(a == b for a, b in box)


def nonempty(box):
    return all(a <= b for a, b in box)


def judge(name, box, params, status, out, second=None, hull_limit=HULL_LIMIT, hull_cache=None):
    """Returns (failures, facts). failures: list of dicts {prop, kind, detail}. facts: dict of what was decidable.
    second: optional (status2, out2) of a consecutive call on `out`."""
    fails = []
    facts = {"hull": False, "entail_checked": False, "point_in": is_point(box), "nontrivial": False}
    n = len(box)
    circuit = name in ("no_sub_cycle", "scc")
    pts = O.box_points(box)
    hull = None
    cnt = None
    if pts <= hull_limit:
        key = None
        if hull_cache is not None:
            key = (name, tuple(map(tuple, box)), tuple(params))
            if key in hull_cache:
                hull, cnt = hull_cache[key]
            else:
                hull, cnt = O.hull(name, box, params)
                hull_cache[key] = (hull, cnt)
        else:
            hull, cnt = O.hull(name, box, params)
        facts["hull"] = True
        if name in support.SUPPORTED:
            # the two independent hull oracles must agree wherever both apply
            facts["oracles_cross_checked"] = True
            if support.hull(name, box, params) != hull:
                facts["oracle_mismatch"] = True
            if name in support.WIDE and (pts & 3) == 0 and support.hull_wide(name, box, params) != hull:
                facts["oracle_mismatch"] = True
    elif name in support.SUPPORTED and all(a <= b for a, b in box):
        # exact, by feasibility probing - no enumeration; on wide domains by probing breakpoints / bisection only
        if name in support.WIDE and max(b - a for a, b in box) > 64:
            hull = support.hull_wide(name, box, params)
            facts["hull_wide"] = True
        else:
            hull = support.hull(name, box, params)
        cnt = -1
        facts["hull"] = True
        facts["hull_by_support"] = True
    if status not in (INC, CONS, ENT):
        fails.append({"prop": "C05", "kind": "bad_status", "detail": "status %r" % (status,)})
        return fails, facts
    if status != INC and (out != box):
        facts["nontrivial"] = True
    if status != CONS:
        facts["nontrivial"] = True
    # ---------------- C05
    if status != INC:
        if not nonempty(out):
            fails.append({"prop": "C05", "kind": "empty_domain_not_reported",
                          "detail": "output %r has an empty interval but status=%d" % (out, status)})
        if not contains(box, out):
            fails.append({"prop": "C05", "kind": "grew", "detail": "output %r not inside input %r" % (out, box)})
        if facts["hull"] and hull is not None and not contains(out, hull):
            # find a lost tuple
            lost = None
            if facts.get("hull_by_support"):
                i = [k for k in range(n) if hull[k][0] < out[k][0] or hull[k][1] > out[k][1]][0]
                v = hull[i][0] if hull[i][0] < out[i][0] else hull[i][1]
                fails.append({"prop": "C05", "kind": "lost_solution",
                              "detail": "value %d of variable #%d has a support in the input box (exact hull %r) but is "
                                        "removed: output %r" % (v, i, hull, out)})
            else:
                for t in O.tuples(box):
                    if O.SEM[name](t, params) and not all(o[0] <= v <= o[1] for o, v in zip(out, t)):
                        lost = list(t)
                        break
                fails.append({"prop": "C05", "kind": "lost_solution",
                              "detail": "tuple %r satisfies the constraint and lies in the input box but not in output %r"
                                        % (lost, out)})
    else:
        if facts["hull"] and hull is not None:
            fails.append({"prop": "C05", "kind": "false_inconsistency",
                          "detail": "inconsistency reported but %s tuples of the input box satisfy it (hull %r)"
                                    % (cnt if cnt >= 0 else "some", hull)})
    # ---------------- beyond the enumeration limit: sampled forms of the same oracles (sound: every report is a real tuple)
    if not facts["hull"] and status in (INC, CONS, ENT):
        import random

        rs = random.Random(hash((name, tuple(map(tuple, box)), tuple(params))) & 0xffffffff)
        found = None
        tried = 0
        cands = [tuple(b[0] for b in box), tuple(b[1] for b in box)]
        while tried < SAMPLES:
            t = cands[tried] if tried < len(cands) else tuple(rs.randint(b[0], b[1]) for b in box)
            tried += 1
            if (not circuit or O.is_permutation(t)) and O.SEM[name](t, params):
                facts["sampled_satisfying"] = facts.get("sampled_satisfying", 0) + 1
                if status == INC:
                    found = t
                    break
                if nonempty(out) and not all(o[0] <= v <= o[1] for o, v in zip(out, t)):
                    found = t
                    break
        facts["sampled"] = tried
        if found is not None and status == INC:
            fails.append({"prop": "C05", "kind": "false_inconsistency",
                          "detail": "inconsistency reported but tuple %r of the input box satisfies the constraint "
                                    "(sampled)" % (list(found),)})
            if name in O.BC_TYPES:
                fails.append({"prop": "C14", "kind": "inconsistency_although_satisfiable",
                              "detail": "inconsistency reported but tuple %r satisfies the constraint (sampled)" % (
                                  list(found),)})
        elif found is not None:
            fails.append({"prop": "C05", "kind": "lost_solution",
                          "detail": "tuple %r satisfies the constraint and lies in the input box but not in output %r "
                                    "(sampled)" % (list(found), out)})
            if name in O.BC_TYPES:
                fails.append({"prop": "C14", "kind": "smaller_than_hull",
                              "detail": "output %r excludes the satisfying tuple %r (sampled)" % (out, list(found))})
    # ---------------- C06
    if status != INC and nonempty(out) and is_point(out):
        t = tuple(a for a, _ in out)
        decisive = (not circuit) or O.is_permutation(t)
        if decisive and not O.SEM[name](t, params):
            kind = "ground_violation_accepted" if is_point(box) else "collapsed_to_violating_point"
            fails.append({"prop": "C06", "kind": kind,
                          "detail": "status=%d with all variables instantiated to %r which violates the relation"
                                    % (status, list(t))})
    if is_point(box) and status == INC:
        t = tuple(a for a, _ in box)
        if O.SEM[name](t, params):
            fails.append({"prop": "C06", "kind": "ground_satisfying_rejected",
                          "detail": "tuple %r satisfies the relation but inconsistency was reported" % (list(t),)})
    # ---------------- C07 (call level)
    if status == ENT and nonempty(out):
        if O.box_points(out) <= hull_limit:
            ok, bad = O.all_satisfy(name, out, params)
            facts["entail_checked"] = True
            if not ok:
                fails.append({"prop": "C07", "kind": "entailed_but_violable",
                              "detail": "entailment reported on output %r which contains violating tuple %r"
                                        % (out, bad)})
        else:
            import random

            rs = random.Random(hash((name, tuple(map(tuple, out)), tuple(params), 7)) & 0xffffffff)
            facts["entail_sampled"] = True
            for k in range(SAMPLES):
                if k == 0:
                    t = tuple(b[0] for b in out)
                elif k == 1:
                    t = tuple(b[1] for b in out)
                else:
                    t = tuple(rs.choice((b[0], b[1], rs.randint(b[0], b[1]))) for b in out)
                if circuit and not O.is_permutation(t):
                    continue
                if not O.SEM[name](t, params):
                    fails.append({"prop": "C07", "kind": "entailed_but_violable",
                                  "detail": "entailment reported on output %r which contains violating tuple %r (sampled)"
                                            % (out, list(t))})
                    break
    # ---------------- C14
    if name in O.BC_TYPES and facts["hull"]:
        if hull is None:
            if status != INC:
                fails.append({"prop": "C14", "kind": "missed_inconsistency",
                              "detail": "no tuple of %r satisfies the constraint but status=%d output=%r"
                                        % (box, status, out)})
        elif status == INC:
            fails.append({"prop": "C14", "kind": "inconsistency_although_satisfiable",
                          "detail": "inconsistency reported but the bounds hull of %r is %r" % (box, hull)})
        elif out != hull:
            # weaker than the hull (sound) or smaller than it (unsound: C05 reports that one as well)
            fails.append({"prop": "C14", "kind": "not_hull" if contains(out, hull) else "smaller_than_hull",
                          "detail": "output %r differs from the bounds hull %r" % (out, hull)})
    if name == "affine_eq":
        ref = O.interval_round_affine_eq(box, params)
        if status != INC:
            if ref is None:
                fails.append({"prop": "C14", "kind": "affine_eq_missed_empty_round",
                              "detail": "one round of interval reasoning empties a domain but status=%d output=%r"
                                        % (status, out)})
            elif out != ref:
                fails.append({"prop": "C14", "kind": "affine_eq_not_one_round",
                              "detail": "output %r differs from one round of interval reasoning %r" % (out, ref)})
    if second is not None and status != INC and (name in O.BC_TYPES):
        st2, out2 = second
        if st2 == INC:
            fails.append({"prop": "C14", "kind": "second_call_fails",
                          "detail": "second consecutive call on %r reports inconsistency" % (out,)})
        elif out2 != out:
            fails.append({"prop": "C14", "kind": "not_idempotent",
                          "detail": "second consecutive call changes %r into %r" % (out, out2)})
    return fails, facts

"""Plane-A monitors for C03 (history), C07 (flags), C08 (fixpoint, schedule injection), C09 (branching),
C10 (shaving), C17 (statistics). See DESIGN.md section 6 for the refuting observations.
"""
import random

import numpy as np

from framework import oracles as O
from framework.monitors import Base, MonitorViolation  # noqa: F401
from framework.planes.linebudget import BudgetExceeded

MIN, MAX = 0, 1
EV_MIN, EV_MAX, EV_GROUND = 1, 2, 4
P_INC, P_UNBOUND, P_BOUND = 0, 1, 2
ST_INC, ST_CONS, ST_ENT = 0, 1, 2

# indices in the 17-argument consistency-algorithm signature
A_STATS, A_ALGS, A_VB, A_PB, A_DI, A_DO, A_PDI, A_PDO, A_PP, A_TRIG, A_STACK, A_FLAGS, A_UPD, A_TOP, A_QUEUE, \
    A_ADDRS, A_DEC = range(17)


def make(name, hub, model, opts):
    return {"fixpoint": Fixpoint, "branch": Branch, "shaving": Shaving, "stats": Stats, "flags": Flags,
            "opthist": OptHistory, "schedule": Schedule}[name](hub, model, opts)


def _unwrapped(f):
    while hasattr(f, "__wrapped__"):
        f = f.__wrapped__
    return f


def _views(args, p, top):
    vb = args[A_VB]
    s, e = int(vb[p, 0]), int(vb[p, 1])
    idxs = args[A_PDI][s:e]
    offs = args[A_PDO][s:e]
    return (args[A_STACK][top, idxs] + offs).astype(np.int32), idxs, offs


def _params(args, p):
    pb = args[A_PB]
    return args[A_PP][int(pb[p, 0]):int(pb[p, 1])]


def budgeted_call(hub, f, views, params):
    """A monitor's own re-execution of a real propagator, under the same line budget as the engine's executions
    (an endless propagator loop must not hang the monitor). Raises BudgetExceeded."""
    from framework.planes.linebudget import line_limit

    lb = getattr(hub, "linebudget", None)
    saved = hub.subs
    hub.subs = {}
    try:
        if lb is not None:
            lb.begin(line_limit(len(views), len(params)))
        try:
            return int(f(views, params))
        finally:
            if lb is not None:
                lb.end()
    finally:
        hub.subs = saved


def ref_bc(hub, args, stack_row, flags_row, queue, fix=None, pop_override=None):
    """Plain BC through the real (unwrapped) function on private copies; monitors are muted meanwhile.
    Returns (status, domains row, flags row, queue)."""
    a = list(args)
    st = np.zeros(13, dtype=np.int64)
    stack = np.empty((2, stack_row.shape[0], 2), dtype=np.int32)
    stack[0] = stack_row
    flags = np.empty((2, len(flags_row)), dtype=bool)
    flags[0] = flags_row
    top = np.zeros(1, dtype=np.uint8)
    q = queue.copy()
    if fix is not None:
        d, v = fix
        stack[0, d, :] = v
        q[:] = True
    a[A_STATS], a[A_STACK], a[A_FLAGS], a[A_TOP], a[A_QUEUE] = st, stack, flags, top, q
    a[A_UPD] = np.zeros((2, 2), dtype=np.uint16)
    saved = (hub.subs, hub.pop_override, hub.status_map)
    hub.subs, hub.pop_override, hub.status_map = {}, pop_override, None
    try:
        status = hub.orig_bc(*a)
    finally:
        hub.subs, hub.pop_override, hub.status_map = saved
    return int(status), stack[0], flags[0], q


# ================================================================================================= C08 fixpoint
class Fixpoint(Base):
    def __init__(self, hub, model, opts):
        super().__init__()
        self.hub = hub
        self.model = model
        self.stack = []
        self.ofix = opts.get("ofix", True)
        self.ofix_points = opts.get("ofix_points", 3000)
        self.exact = None  # decided at first pass from the algorithms array
        import nucs.propagators.propagators as PP
        from framework import nucsmap as M

        self.PP, self.M = PP, M
        self.last_prop = None
        hub.on("alg_enter", self.enter)
        hub.on("alg_exit", self.exit)
        hub.on("pop", self.pop)
        hub.on("bt_exit", self.bt_exit)
        hub.on("reset", self.on_reset)
        self.passes_seen = set()
        # skip-self bookkeeping: constraints whose queue bit was still set when a pass at some level ended. The child
        # of the choice made there consumes that bit; after backtracking to the level the re-run is still owed but
        # nothing remembers it (the queue is not part of the choice point) - a consequence of finding F14.
        self.stale_at_level = {}
        self.owed = set()

    def on_reset(self, args):
        self.stale_at_level = {}
        self.owed = set()

    def bt_exit(self, args, ok, where):
        if ok and where == "search":
            t = int(args[3][0])
            # the state restored at level t was copied from the result of the last pass that ended at or below t (a value
            # heuristic may push two levels from one pass result): the re-runs owed there are owed here
            for k in [k for k in self.stale_at_level if k > t]:
                del self.stale_at_level[k]
            below = [k for k in self.stale_at_level if k <= t]
            self.owed = set(self.stale_at_level[max(below)]) if below else set()

    def pop(self, triggered, prev, r):
        if r != -1:
            self.last_prop = r
            self.owed.discard(int(r))
            if self.stack:
                self.stack[-1]["execs"] += 1
        if not self.stack or self.stack[-1].get("args") is None:
            return
        # wake-up audit: every enabled watcher of a bound that moved during the last execution should be queued.
        # A miss is not a verdict (the wake-up may be redundant); it makes the pass a *suspect* whose entry state is
        # re-run under a targeted wake-up order at exit (the property quantifies over all wake-up orders).
        ent = self.stack[-1]
        args = ent["args"]
        top = ent["top"]
        cur = args[A_STACK][top]
        old = ent["prev_doms"]
        if prev != -1 and not np.array_equal(cur, old):
            flags = args[A_FLAGS][top]
            trig = args[A_TRIG]
            for d in range(cur.shape[0]):
                ev = 0
                if cur[d, MIN] != old[d, MIN]:
                    ev |= EV_MIN
                if cur[d, MAX] != old[d, MAX]:
                    ev |= EV_MAX
                if ev and cur[d, MIN] == cur[d, MAX]:
                    ev |= EV_GROUND
                if ev:
                    for p in range(len(triggered)):
                        if flags[p] and (int(trig[d, p]) & ev) and not triggered[p] and p != r:
                            self.c("wakeup_audit_misses")
                            if len(ent["suspects"]) < 3:
                                ent["suspects"].append((p, int(prev), d, ev))
            self.c("wakeup_audits")
        ent["prev_doms"] = cur.copy()

    def enter(self, idx, args, inner):
        from nucs.solvers import consistency_algorithms as CA

        top = int(args[A_TOP][0])
        is_bc = idx == CA.CONSISTENCY_ALG_BC
        self.stack.append({"top": top, "doms": args[A_STACK][top].copy(), "flags": args[A_FLAGS][top].copy(),
                           "execs": 0, "args": args if is_bc else None, "queue": args[A_QUEUE].copy(),
                           "prev_doms": args[A_STACK][top].copy(), "suspects": []})

    def _model_props(self, args):
        """The posted constraints in the engine's order, in the framework's vocabulary."""
        n = len(args[A_ALGS])
        props = []
        for p in range(n):
            name = self.M.NAME_OF.get(int(args[A_ALGS][p]))
            vb = args[A_VB]
            s, e = int(vb[p, 0]), int(vb[p, 1])
            props.append((name, args[A_PDI][s:e].tolist(), args[A_PDO][s:e, 0].tolist(), _params(args, p).tolist()))
        return props

    def exit(self, idx, args, status, inner):
        ent = self.stack.pop()
        top = int(args[A_TOP][0])
        self.c("passes")
        if top != ent["top"]:
            self.fail("C08", "stack_pointer_changed_by_pass", "top %d -> %d across a propagation pass" % (
                ent["top"], top))
            self.fail("C10", "stack_height_changed", "top %d -> %d across consistency algorithm %d" % (
                ent["top"], top, idx))
            return
        if status == P_INC:
            self.c("passes_inconsistent")
            return
        doms = args[A_STACK][top]
        before = ent["doms"]
        self.c("passes_checked")
        if ent["execs"] >= 3:
            self.c("passes_with_3plus_executions")
        if np.any(doms[:, MIN] > doms[:, MAX]):
            d = int(np.argmax(doms[:, MIN] > doms[:, MAX]))
            self.fail("C08", "empty_domain_after_consistent_pass",
                      "domain %d = %r after a pass that reported status %d" % (d, doms[d].tolist(), status))
            return
        if np.any(doms[:, MIN] < before[:, MIN]) or np.any(doms[:, MAX] > before[:, MAX]):
            d = int(np.argmax((doms[:, MIN] < before[:, MIN]) | (doms[:, MAX] > before[:, MAX])))
            self.fail("C08", "domain_grew_during_pass", "domain %d: %r -> %r" % (
                d, before[d].tolist(), doms[d].tolist()))
            return
        if status == P_BOUND and not np.all(doms[:, MIN] == doms[:, MAX]):
            self.fail("C08", "solved_reported_with_open_domain", "status solved but domains %r" % doms.tolist())
        # re-execution of every still-enabled constraint on the result
        flags = args[A_FLAGS][top]
        queue = args[A_QUEUE]
        n = len(args[A_ALGS])
        for p in range(n):
            if not flags[p]:
                continue
            alg = int(args[A_ALGS][p])
            name = self.M.NAME_OF.get(alg)
            if name is None:
                continue
            views, idxs, offs = _views(args, p, top)
            v0 = views.copy()
            f = _unwrapped(self.PP.COMPUTE_DOMAINS_FCTS[alg])
            try:
                st = budgeted_call(self.hub, f, views, _params(args, p))
            except BudgetExceeded as e:
                self.fail("C08", "reexecution_did_not_complete",
                          "constraint #%d %s%r re-executed on views %r: %s" % (p, name, _params(args, p).tolist(),
                                                                            v0.tolist(), e),
                          constraint=name, queued=bool(queue[p]), last=(p == self.last_prop))
                continue
            self.c("reexecutions")
            if st == ST_INC:
                self.fail("C08", "reexecution_fails",
                          "constraint #%d %s%r fails when re-executed on the result of a pass that reported status %d "
                          "(views %r, still queued: %s)" % (p, name, _params(args, p).tolist(), status, v0.tolist(),
                                                            bool(queue[p])),
                          constraint=name, queued=bool(queue[p]), last=(p == self.last_prop),
                          owed=bool((p in self.owed) and not queue[p]))
            elif name != "no_sub_cycle" and not np.array_equal(views, v0):
                owed = (p in self.owed) and not queue[p]
                self.fail("C08", "not_a_fixpoint" if not owed else "not_a_fixpoint_rerun_owed_after_backtrack",
                          "constraint #%d %s%r still prunes after the pass: views %r -> %r (still queued: %s, "
                          "last executed: %s)" % (p, name, _params(args, p).tolist(), v0.tolist(), views.tolist(),
                                                  bool(queue[p]), p == self.last_prop),
                          constraint=name, queued=bool(queue[p]), last=(p == self.last_prop),
                          owed=bool((p in self.owed) and not queue[p]))
        if not inner:
            for k in [k for k in self.stale_at_level if k > top]:
                del self.stale_at_level[k]
            self.stale_at_level[top] = set(int(i) for i in np.nonzero(queue)[0]) | set(self.owed)
        for (sp, mover, sd, sev) in ent.get("suspects", []):
            self._targeted_schedule(args, ent, sp, mover, sd, sev)
        # greatest fixpoint for exact-BC models (plain BC passes only)
        from nucs.solvers import consistency_algorithms as CA

        if self.ofix and idx == CA.CONSISTENCY_ALG_BC:
            props = self._model_props(args)
            exact = all(nm in O.BC_TYPES and not (nm == "gcc" and _zero_cap(pr)) for nm, _, _, pr in props)
            if exact:
                pts = 1
                for a, b in before.tolist():
                    pts *= (b - a + 1)
                if True:  # (boxes beyond the enumeration limit are decided by the support oracle, see _ofix)
                    ref = self._ofix(props, before.tolist(), ent["flags"].tolist())
                    self.c("ofix_compared")
                    if pts > self.ofix_points:
                        self.c("ofix_compared_beyond_enumeration")
                    if ref is None:
                        self.fail("C08", "missed_inconsistency_vs_greatest_fixpoint",
                                  "reference propagation finds the constraints inconsistent on %r but the pass "
                                  "reported status %d with %r" % (before.tolist(), status, doms.tolist()))
                    elif ref != doms.tolist():
                        self.fail("C08", "not_the_greatest_fixpoint",
                                  "entry %r: pass result %r differs from the greatest common fixpoint %r" % (
                                      before.tolist(), doms.tolist(), ref))

    def _targeted_schedule(self, args, ent, sp, mover, sd, sev):
        """Re-runs the pass from its entry state (private copies, real BC) under the wake-up order 'suspect first,
        mover last' and checks the result for a constraint that still prunes or fails."""
        def override(triggered, prev):
            cand = [i for i in range(len(triggered)) if triggered[i] and i != prev]
            if not cand:
                return -1
            if sp in cand:
                r = sp
            else:
                rest = [i for i in cand if i != mover]
                r = rest[0] if rest else cand[0]
            triggered[r] = False
            return r

        self.c("targeted_schedules_run")
        st, doms, flags, queue = ref_bc(self.hub, args, ent["doms"], ent["flags"], ent["queue"], pop_override=override)
        if st == P_INC:
            return
        top = 0
        a2 = list(args)
        stack = np.empty((1, doms.shape[0], 2), dtype=np.int32)
        stack[0] = doms
        a2[A_STACK] = stack
        n = len(args[A_ALGS])
        for p in range(n):
            if not flags[p]:
                continue
            alg = int(args[A_ALGS][p])
            name = self.M.NAME_OF.get(alg)
            if name is None or name == "no_sub_cycle":
                continue
            if name == "affine_eq" and queue[p]:
                continue  # the known skip-self mechanism, judged by the regular check
            views, idxs, offs = _views(a2, p, 0)
            v0 = views.copy()
            f = _unwrapped(self.PP.COMPUTE_DOMAINS_FCTS[alg])
            try:
                s2 = budgeted_call(self.hub, f, views, _params(args, p))
            except BudgetExceeded:
                continue
            if s2 == ST_INC or not np.array_equal(views, v0):
                self.fail("C08", "not_a_fixpoint_under_another_wakeup_order",
                          "entry %r: with constraint #%d woken before #%d (whose execution moved bounds %d of domain %d "
                          "without queueing watcher #%d), the pass ends at %r where constraint #%d %s%r %s (views %r -> "
                          "%r)" % (ent["doms"].tolist(), sp, mover, sev, sd, sp, doms.tolist(), p, name,
                                   _params(args, p).tolist(), "fails" if s2 == ST_INC else "still prunes",
                                   v0.tolist(), views.tolist()),
                          constraint=name, queued=bool(queue[p]), last=False, suspect=[sp, mover, sd, sev])
                return

    def _ofix(self, props, doms, flags):
        """Greatest common fixpoint of the per-constraint operators 'bounds hull of the box of views, written back by
        intersection' - the views of one constraint are independent variables even when they share a domain, which
        is all that bound consistency of a single constraint promises."""
        doms = [list(d) for d in doms]
        changed = True
        while changed:
            changed = False
            for p, (name, idxs, offs, params) in enumerate(props):
                if not flags[p]:
                    continue
                box = [[doms[d][0] + o, doms[d][1] + o] for d, o in zip(idxs, offs)]
                if O.box_points(box) <= 2000:
                    h, _ = O.hull(name, box, params)
                else:
                    from framework import support

                    h = support.hull(name, box, params)  # exact without enumeration (all BC types are supported)
                if h is None:
                    return None
                for (d, o), (lo, hi) in zip(zip(idxs, offs), h):
                    nl, nh = max(doms[d][0], lo - o), min(doms[d][1], hi - o)
                    if nl > nh:
                        return None
                    if [nl, nh] != doms[d]:
                        doms[d] = [nl, nh]
                        changed = True
        return doms


def _zero_cap(p):
    m = (len(p) - 1) // 2
    return any(u == 0 for u in p[1 + m:1 + 2 * m])


# ====================================================================================== C08 schedule injection
class Schedule(Base):
    """Adversarial queue pop: any triggered propagator other than the previous one (seeded)."""

    def __init__(self, hub, model, opts):
        super().__init__()
        self.rnd = random.Random(opts.get("seed", 0))
        self.distinct = set()
        self.cur = []
        self.delay_vars = opts.get("delay_vars")  # constraints posted on exactly these variables run last
        self.delay = set()
        hub.pop_override = self.pop
        hub.on("alg_enter", self.enter)

    def bind(self, solver):
        if self.delay_vars is not None:
            for i, (vs, alg, pr) in enumerate(solver.problem.propagators):
                if [int(v) for v in vs] == list(self.delay_vars):
                    self.delay.add(i)

    def enter(self, idx, args, inner):
        if self.cur:
            self.distinct.add(tuple(self.cur))
        self.cur = []

    def pop(self, triggered, prev):
        cand = [i for i in range(len(triggered)) if triggered[i] and i != prev]
        if not cand:
            return -1
        if self.delay:
            early = [i for i in cand if i not in self.delay]
            cand = early or cand
        r = self.rnd.choice(cand)
        triggered[r] = False
        self.c("pops")
        if len(cand) > 1:
            self.c("pops_with_a_choice")
        self.cur.append(r)
        return r

    def summary(self):
        d = dict(self.counts)
        d["distinct_wakeup_orders"] = len(self.distinct)
        return d


# ============================================================================================== C09 branching
class Branch(Base):
    def __init__(self, hub, model, opts):
        super().__init__()
        self.shadow = {}  # level -> (domains row, flags row, (dom_idx, events)) saved alternative
        self.pending = None
        self.need_queue = None
        self.decision = None
        hub.on("dom_enter", self.dom_enter)
        hub.on("dom_exit", self.dom_exit)
        hub.on("bt_enter", self.bt_enter)
        hub.on("bt_exit", self.bt_exit)
        hub.on("var_heur", self.var_heur)
        hub.on("alg_enter", self.alg_enter)
        hub.on("reset", self.on_reset)
        hub.on("cp_put", self.cp_put)
        self.puts = 0

    def cp_put(self, stack, flags, top):
        self.puts += 1
        t = int(top[0])
        self.c("cp_put")
        if not np.array_equal(flags[t], flags[t - 1]):
            self.fail("C07", "flags_not_copied_on_push", "enabled-flags row of new level %d differs from level %d" % (
                t, t - 1))
        if not np.array_equal(stack[t], stack[t - 1]):
            self.fail("C09", "domains_not_copied_on_push", "domains of new level %d differ from level %d" % (t, t - 1))

    def on_reset(self, args):
        self.shadow = {}

    def var_heur(self, idx, args, r, where):
        params, dec, stack, top = args
        t = int(top[0])
        self.c("var_heuristic_calls")
        open_ = [int(d) for d in dec if stack[t, d, MIN] < stack[t, d, MAX]]
        if where == "search":
            if open_ and (int(r) not in open_):
                self.fail("C09", "variable_heuristic_returned_no_open_domain",
                          "heuristic %d returned %d while decision domains %r are not instantiated (domains %r)" % (
                              idx, int(r), open_, stack[t].tolist()), where=where)

    def dom_enter(self, idx, args, where):
        params, stack, flags, upd, top, dom_idx = args
        t = int(top[0])
        self.pending = {"top": t, "doms": stack[t].copy(), "flags": flags[t].copy(), "dom": int(dom_idx),
                        "puts": self.puts}

    def dom_exit(self, idx, args, events, where):
        params, stack, flags, upd, top, dom_idx = args
        pe = self.pending
        self.pending = None
        if pe is None:
            return
        t0, t1 = pe["top"], int(top[0])
        d = pe["dom"]
        a, b = int(pe["doms"][d, MIN]), int(pe["doms"][d, MAX])
        self.c("decisions_" + where)
        self.c("decisions_heuristic_%d" % idx)
        if a >= b:
            self.c("decisions_on_instantiated_domain")
            return  # outside the property's quantifier (a<b); C04/C09 var-heuristic contract covers how we got here
        from framework import branchcheck

        fails, alts, need = branchcheck.check_decision(pe["doms"], pe["flags"], t0, stack, flags, upd, t1, d,
                                                       int(events), ground_by_caller=(where == "shaving"))
        for kind, detail in fails:
            self.fail("C09", kind, detail, where=where, heuristic=idx)
        if where == "search":
            self.shadow.update(alts)
            self.need_queue = (d, need, t1)
        else:
            self.shave_ctx = (t0, d, a, b)

    def alg_enter(self, idx, args, inner):
        nq = self.need_queue
        self.need_queue = None
        if nq is None or inner:
            return
        d, need, t1 = nq
        top = int(args[A_TOP][0])
        if top != t1:
            return
        self._check_queue(args[A_QUEUE], args[A_FLAGS][top], args[A_TRIG], d, need, "after_branch")

    def _check_queue(self, queue, flags, trig, d, need, when):
        self.c("queue_checks")
        for p in range(len(queue)):
            if flags[p] and (int(trig[d, p]) & need) and not queue[p]:
                self.fail("C09", "watcher_not_queued_" + when,
                          "constraint #%d watches mask %d of domain %d, events %d happened, but it is not queued" % (
                              p, int(trig[d, p]), d, need))
                break

    def bt_enter(self, args, where):
        self.bt_top = int(args[3][0])

    def bt_exit(self, args, ok, where):
        stats, flags, upd, top, queue, trig = args
        t = int(top[0])
        self.c("backtracks_" + where)
        if not ok:
            if self.bt_top != 0:
                self.fail("C09", "backtrack_failed_with_alternatives_left", "top was %d" % self.bt_top)
            return
        if self.bt_top == 0:
            self.fail("C09", "backtrack_succeeded_at_level_0", "top was 0, now %d" % t)
            return
        if t != self.bt_top - 1:
            self.fail("C09", "backtrack_popped_wrong_count", "top %d -> %d" % (self.bt_top, t))
            return
        if where != "search":
            # a shaving probe is popped: if the level it returns to ends up with a moved bound (the value was shaved),
            # that bound must be announced to its watchers like any alternative taken on backtracking
            ctx = getattr(self, "shave_ctx", None)
            self.shave_ctx = None
            stack = self.solver_stack() if self.solver_stack else None
            if ctx is not None and stack is not None and ctx[0] == t:
                _, d, a, b = ctx
                lo, hi = int(stack[t, d, MIN]), int(stack[t, d, MAX])
                from framework import branchcheck

                need = branchcheck.need_events(lo, hi, a, b)
                if need and lo <= hi:
                    self.c("shaves_audited")
                    msg = branchcheck.check_queue(queue, flags[t], trig, d, need)
                    if msg:
                        self.fail("C09", "watcher_not_queued_after_shave", msg, where=where)
                        self.fail("C10", "shaved_bound_not_announced", msg, where=where)
            return
        sh = self.shadow.pop(t, None)
        if sh is None:
            self.c("backtracks_without_shadow")
            return
        self.c("restores_compared")
        # the domains are not passed to backtrack(): fetch them from the solver bound to this monitor
        stack = self.solver_stack() if self.solver_stack else None
        if stack is not None and not np.array_equal(stack[t], sh[0]):
            self.fail("C09", "restored_domains_differ_from_saved_alternative",
                      "level %d: %r, saved alternative was %r" % (t, stack[t].tolist(), sh[0].tolist()))
        if not np.array_equal(flags[t], sh[1]):
            self.fail("C09", "restored_flags_differ_from_saved",
                      "level %d: enabled flags %r, saved %r" % (t, flags[t].tolist(), sh[1].tolist()))
            self.fail("C07", "restored_flags_differ_from_saved",
                      "level %d: enabled flags %r, saved %r" % (t, flags[t].tolist(), sh[1].tolist()))
        d, need = sh[2]
        self._check_queue(queue, flags[t], trig, d, need, "after_backtrack")

    solver_stack = None

    def bind(self, solver):
        self.solver_stack = lambda: solver.shr_domains_stack


# =================================================================================================== C07 flags
class Flags(Base):
    def __init__(self, hub, model, opts):
        super().__init__()
        self.stack = []
        self.downgrade = opts.get("downgrade", False)
        if self.downgrade:
            hub.status_map = lambda st: ST_CONS if st == ST_ENT else st
        hub.on("alg_enter", self.enter)
        hub.on("alg_exit", self.exit)
        hub.on("prop_exit", self.prop_exit)
        hub.on("pop", self.pop)
        self.cur = -1
        self.entailed_now = None

    def pop(self, triggered, prev, r):
        self.cur = r

    def enter(self, idx, args, inner):
        top = int(args[A_TOP][0])
        self.stack.append({"top": top, "flags": args[A_FLAGS][top].copy(), "ent": set(), "args": args})

    def prop_exit(self, alg, before, after, params, status):
        if status == ST_ENT and self.stack:
            self.stack[-1]["ent"].add(int(self.cur))
            self.c("entailment_answers")

    def exit(self, idx, args, status, inner):
        e = self.stack.pop()
        top = int(args[A_TOP][0])
        if top != e["top"]:
            return
        now = args[A_FLAGS][top]
        self.c("passes")
        for p in range(len(now)):
            if e["flags"][p] and not now[p]:
                self.c("flags_cleared")
                if self.downgrade:
                    self.fail("C07", "flag_cleared_without_entailment",
                              "constraint #%d disabled although every entailment answer was downgraded" % p)
                elif p not in e["ent"]:
                    self.fail("C07", "flag_cleared_without_entailment",
                              "constraint #%d disabled at level %d without an entailment answer of that constraint in "
                              "this pass" % (p, top))
            elif (not e["flags"][p]) and now[p]:
                self.fail("C07", "flag_set_during_pass", "constraint #%d re-enabled inside a propagation pass" % p)
        if not self.downgrade:
            for p in e["ent"]:
                if now[p] and status != P_INC:
                    self.fail("C07", "entailed_constraint_not_disabled",
                              "constraint #%d answered entailment but is still enabled at level %d" % (p, top))
        if self.stack and self.stack[-1]["top"] == e["top"]:
            self.stack[-1]["ent"] |= e["ent"]


# ================================================================================================= C10 shaving
class Shaving(Base):
    def __init__(self, hub, model, opts):
        super().__init__()
        self.hub = hub
        self.model = model
        self.entries = []
        self.probe = None
        self.sols = None
        if opts.get("solutions") is not None:
            self.sols = opts["solutions"]  # list of tuples over variables
        hub.on("alg_enter", self.enter)
        hub.on("alg_exit", self.exit)
        hub.on("shave_enter", self.shave_enter)
        hub.on("shave_exit", self.shave_exit)
        self.confluent = None
        self.last_inner_status = None

    def _ref_bc(self, args, stack_row, flags_row, queue, fix=None):
        """Plain BC through the real (unwrapped) function on private copies; monitors are muted meanwhile."""
        a = list(args)
        st = np.zeros(13, dtype=np.int64)
        h = args[A_STACK].shape[0]
        stack = np.empty((2, stack_row.shape[0], 2), dtype=np.int32)
        stack[0] = stack_row
        flags = np.empty((2, len(flags_row)), dtype=bool)
        flags[0] = flags_row
        top = np.zeros(1, dtype=np.uint8)
        q = queue.copy()
        if fix is not None:
            d, v = fix
            stack[0, d, :] = v
            q[:] = True
        a[A_STATS], a[A_STACK], a[A_FLAGS], a[A_TOP], a[A_QUEUE] = st, stack, flags, top, q
        a[A_UPD] = np.zeros((2, 2), dtype=np.uint16)
        saved = (self.hub.subs, self.hub.pop_override, self.hub.status_map)
        self.hub.subs, self.hub.pop_override, self.hub.status_map = {}, None, None
        try:
            status = self.hub.orig_bc(*a)
        finally:
            self.hub.subs, self.hub.pop_override, self.hub.status_map = saved
        return int(status), stack[0]

    def enter(self, idx, args, inner):
        from nucs.solvers import consistency_algorithms as CA

        if idx != CA.CONSISTENCY_ALG_SHAVING or inner:
            self.entries.append(None)
            return
        if self.confluent is None:
            # the independent re-derivation of a refutation assumes that the result of a pass does not depend on the
            # wake-up order; affine_eq (one round, not re-run) breaks that, see finding F14
            from framework import nucsmap as M

            self.confluent = all(M.NAME_OF.get(int(a)) != "affine_eq" for a in args[A_ALGS])
        top = int(args[A_TOP][0])
        self.entries.append({"top": top, "doms": args[A_STACK][top].copy(), "flags": args[A_FLAGS][top].copy(),
                             "queue": args[A_QUEUE].copy(), "below": args[A_STACK][:top].copy()})

    def exit(self, idx, args, status, inner):
        e = self.entries.pop()
        if inner:
            self.last_inner_status = int(status)
        if e is None:
            return
        self.c("shaving_calls")
        top = int(args[A_TOP][0])
        if top != e["top"]:
            self.fail("C10", "stack_height_changed", "top %d on entry, %d on exit of the shaving algorithm" % (
                e["top"], top))
            return
        if not np.array_equal(args[A_STACK][:top], e["below"]):
            self.fail("C10", "levels_below_modified", "shaving modified a level below the current one")
        doms = args[A_STACK][top]
        rst, rdoms = self._ref_bc(args, e["doms"], e["flags"], e["queue"])
        self.c("bc_references")
        inbox = None
        if self.sols is not None:
            di, do = args[A_DI], args[A_DO]
            inbox = [s for s in self.sols if all(
                e["doms"][di[v], MIN] <= s[v] - do[v] <= e["doms"][di[v], MAX] for v in range(len(di)))]
        if status == P_INC:
            self.c("shaving_inconsistent")
            if inbox:
                self.fail("C10", "inconsistent_but_solution_exists",
                          "shaving reports inconsistency on %r which contains solution %r" % (
                              e["doms"].tolist(), list(inbox[0])))
            return
        if np.any(doms[:, MIN] > doms[:, MAX]):
            self.fail("C10", "empty_domain_returned", "%r with status %d" % (doms.tolist(), status))
            return
        if np.any(doms[:, MIN] < e["doms"][:, MIN]) or np.any(doms[:, MAX] > e["doms"][:, MAX]):
            self.fail("C10", "domain_grew", "%r -> %r" % (e["doms"].tolist(), doms.tolist()))
        if rst == P_INC:
            self.fail("C10", "bc_inconsistent_but_shaving_not",
                      "plain BC fails on %r but shaving returned %r (status %d)" % (
                          e["doms"].tolist(), doms.tolist(), status))
        elif np.any(doms[:, MIN] < rdoms[:, MIN]) or np.any(doms[:, MAX] > rdoms[:, MAX]):
            self.fail("C10", "weaker_than_bc", "shaving %r not inside plain BC %r (entry %r)" % (
                doms.tolist(), rdoms.tolist(), e["doms"].tolist()))
        if not np.array_equal(doms, rdoms):
            self.c("shaving_strictly_stronger_than_bc")
        if inbox is not None:
            di, do = args[A_DI], args[A_DO]
            for s in inbox:
                if not all(doms[di[v], MIN] <= s[v] - do[v] <= doms[di[v], MAX] for v in range(len(di))):
                    self.fail("C10", "solution_removed",
                              "solution %r lies in the entry box %r but not in the shaved box %r" % (
                                  list(s), e["doms"].tolist(), doms.tolist()))
                    break
            self.c("solution_sets_checked")

    def shave_enter(self, bound, dom_idx, args):
        full = args  # (statistics, algorithms, ..., decision)
        top = int(full[A_TOP][0])
        self.probe = {"top": top, "doms": full[A_STACK][top].copy(), "flags": full[A_FLAGS][top].copy(),
                      "queue": full[A_QUEUE].copy()}

    def shave_exit(self, bound, dom_idx, args, shaved):
        pr = self.probe
        self.probe = None
        full = args
        top = int(full[A_TOP][0])
        self.c("probes")
        if top != pr["top"]:
            self.fail("C10", "probe_changed_stack_height", "top %d -> %d across a probe" % (pr["top"], top))
            return
        d = int(dom_idx)
        doms = full[A_STACK][top]
        v = int(pr["doms"][d, bound])
        if shaved:
            self.c("probes_shaved")
            exp = pr["doms"].copy()
            exp[d, bound] += 1 if bound == MIN else -1
            if not np.array_equal(doms, exp):
                self.fail("C10", "shaved_state_unexpected",
                          "after shaving bound %d of domain %d: %r, expected %r" % (bound, d, doms.tolist(),
                                                                                    exp.tolist()))
            # independent refutation: BC with the variable fixed to that bound must fail
            if self.last_inner_status != P_INC:
                self.fail("C10", "shaved_although_the_probe_did_not_fail",
                          "value %d of domain %d was removed but the probe's propagation pass returned status %r" % (
                              v, d, self.last_inner_status))
            rst, _ = self._ref_bc(full, pr["doms"], pr["flags"], pr["queue"], fix=(d, v))
            self.c("refutations_rechecked")
            if rst != P_INC and not self.confluent:
                self.c("refutations_not_reproduced_on_order_dependent_model")
            elif rst != P_INC:
                self.fail("C10", "shaved_without_refutation",
                          "value %d of domain %d was removed but propagation with the variable fixed to it does not "
                          "fail (entry %r)" % (v, d, pr["doms"].tolist()))
            if self.sols is not None:
                di, do = full[A_DI], full[A_DO]
                for s in self.sols:
                    if all(pr["doms"][di[x], MIN] <= s[x] - do[x] <= pr["doms"][di[x], MAX] for x in range(len(di))):
                        if any(di[x] == d and s[x] - do[x] == v for x in range(len(di))):
                            self.fail("C10", "shaved_value_belongs_to_a_solution",
                                      "value %d of domain %d removed but solution %r uses it" % (v, d, list(s)))
                            break
        else:
            self.c("probes_not_shaved")
            if self.last_inner_status == P_INC:
                self.fail("C10", "refuted_value_not_shaved",
                          "the probe's propagation pass failed for value %d of domain %d but the value was kept" % (v, d))
            if not np.array_equal(doms, pr["doms"]):
                self.fail("C10", "failed_probe_not_undone",
                          "after an unsuccessful probe of bound %d of domain %d: %r, before %r" % (
                              bound, d, doms.tolist(), pr["doms"].tolist()))
            if not np.array_equal(full[A_FLAGS][top], pr["flags"]):
                self.fail("C10", "failed_probe_changed_flags", "enabled flags differ after an unsuccessful probe")


# ================================================================================================ C17 statistics
class Stats(Base):
    def __init__(self, hub, model, opts):
        super().__init__()
        self.m = [0] * 13
        self.solver = None
        self.n_delivered = 0
        self.last_status = None
        self.cp_puts = 0
        self.execs_in_pass = []
        from nucs.solvers import consistency_algorithms as CA

        self.CA = CA
        hub.on("alg_enter", self.alg_enter)
        hub.on("alg_exit", self.alg_exit)
        hub.on("prop_exit", self.prop_exit)
        hub.on("dom_exit", self.dom_exit)
        hub.on("bt_exit", self.bt_exit)
        hub.on("shave_enter", self.shave_enter)
        hub.on("shave_exit", self.shave_exit)
        hub.on("cp_put", self.cp_put)
        hub.on("solve_one_exit", self.solve_one_exit)
        self.partial_checks = 0

    def bind(self, solver):
        self.solver = solver

    def cp_put(self, *a):
        self.cp_puts += 1

    def alg_enter(self, idx, args, inner):
        if idx == self.CA.CONSISTENCY_ALG_BC:
            self.m[0] += 1
        elif idx == self.CA.CONSISTENCY_ALG_SHAVING:
            self.m[1] += 1
        self.execs_in_pass.append(None)

    def alg_exit(self, idx, args, status, inner):
        last = self.execs_in_pass.pop()
        if idx == self.CA.CONSISTENCY_ALG_BC and status == P_INC and last is not None and last != ST_INC:
            # engine-detected inconsistency right after an execution (disjoint views of one shared domain):
            # no propagator answered inconsistency, so the counter must not move
            self.c("engine_detected_inconsistencies")

    def prop_exit(self, alg, before, after, params, status):
        self.m[6] += 1
        if self.execs_in_pass:
            self.execs_in_pass[-1] = int(status)
        if status == ST_ENT:
            self.m[5] += 1
        if status == ST_INC:
            self.m[8] += 1
        elif np.array_equal(before, after):
            self.m[7] += 1

    def dom_exit(self, idx, args, events, where):
        if where == "search":
            self.m[10] += 1
            t = int(args[4][0])
            if t > self.m[11]:
                self.m[11] = t

    def bt_exit(self, args, ok, where):
        if ok:
            self.m[9] += 1

    def shave_enter(self, *a):
        self.m[2] += 1

    def shave_exit(self, bound, dom_idx, args, shaved):
        if shaved:
            self.m[3] += 1
        else:
            self.m[4] += 1

    def solve_one_exit(self, args, sol):
        if sol is not None:
            self.m[12] += 1

    def delivered(self):
        self.n_delivered += 1
        if self.n_delivered != self.m[12]:
            self.fail("C17", "solutions_delivered_vs_found", "%d delivered to the caller, %d found by solve_one" % (
                self.n_delivered, self.m[12]))
        self._compare("after solution %d (quiescent point)" % self.n_delivered)
        self.partial_checks += 1

    def _compare(self, when):
        from framework.modelrun import STAT_KEYS, stats_list

        got = stats_list(self.solver)
        self.c("comparisons")
        if got != self.m:
            bad = [(STAT_KEYS[i], got[i], self.m[i]) for i in range(13) if got[i] != self.m[i]]
            self.fail("C17", "counter_differs_from_observed_events",
                      "%s: (counter, reported, observed by the monitor) %r" % (when, bad))
            return False
        return True

    def final(self, solver, out):
        if out.error is not None:
            return
        self._compare("at the end of the run")
        self.counts["cp_puts"] = self.cp_puts
        self.counts["observed_prop_execs"] = self.m[6]
        self.counts["observed_choices"] = self.m[10]
        self.counts["observed_backtracks"] = self.m[9]
        self.counts["quiescent_point_comparisons"] = self.partial_checks


# ================================================================================================ C03 history
class OptHistory(Base):
    def __init__(self, hub, model, opts):
        super().__init__()
        self.incumbents = []
        self.state = "search"
        hub.on("solve_one_exit", self.solve_one_exit)
        hub.on("reset", self.on_reset)
        hub.on("tighten", self.on_tighten)
        self.solver = None

    def bind(self, solver, var, direction):
        self.solver, self.var, self.dir = solver, var, direction
        self.init = np.array(solver.problem.shr_domains_lst).copy()

    def solve_one_exit(self, args, sol):
        if self.solver is None:
            return  # not an optimisation run
        self.c("solve_one_calls")
        if sol is None:
            return
        v = int(sol[self.var])
        if self.incumbents:
            prev = self.incumbents[-1]
            if (self.dir == "min" and v >= prev) or (self.dir == "max" and v <= prev):
                self.fail("C03", "incumbent_not_strictly_improving", "objective sequence %r then %d (%s)" % (
                    self.incumbents, v, self.dir))
        self.incumbents.append(v)
        self.state = "found"

    def on_reset(self, args):
        s = self.solver
        if s is None:
            return
        self.c("resets")
        if self.state != "found":
            self.fail("C03", "reset_without_incumbent", "reset() called in state %s" % self.state)
        self.state = "reset"
        if int(s.stacks_top[0]) != 0:
            self.fail("C03", "reset_leaves_stack", "stacks_top = %d after reset" % int(s.stacks_top[0]))
        if not np.array_equal(s.shr_domains_stack[0], self.init):
            self.fail("C03", "reset_does_not_restore_initial_domains", "%r vs initial %r" % (
                s.shr_domains_stack[0].tolist(), self.init.tolist()))
        if not np.all(s.triggered_propagators):
            self.fail("C03", "reset_leaves_queue", "queue %r after reset" % (s.triggered_propagators.tolist(),))
        if not np.all(s.not_entailed_propagators_stack[0]):
            msg = "constraints %r are still disabled at level 0 after the restart of the optimisation" % (
                [int(i) for i in np.nonzero(~s.not_entailed_propagators_stack[0])[0]],)
            self.fail("C03", "reset_leaves_constraints_disabled", msg)
            self.fail("C07", "constraint_not_re_enabled_after_restart", msg)

    def on_tighten(self, name, args):
        s = self.solver
        if s is None:
            return
        self.c("tightenings")
        if self.state != "reset":
            self.fail("C03", "tighten_without_reset", "%s called in state %s" % (name, self.state))
        self.state = "search"
        d = int(s.problem.dom_indices_arr[self.var])
        o = int(s.problem.dom_offsets_arr[self.var])
        inc = self.incumbents[-1]
        exp = self.init.copy()
        if self.dir == "min":
            exp[d, MAX] = inc - 1 - o
        else:
            exp[d, MIN] = inc + 1 - o
        if not np.array_equal(s.shr_domains_stack[0], exp):
            self.fail("C03", "tightening_wrong_bound",
                      "after %s past incumbent %d: level 0 is %r, expected %r" % (
                          name, inc, s.shr_domains_stack[0].tolist(), exp.tolist()))

    def final(self, out):
        if out.error is None and out.result not in ("unset", None):
            if not self.incumbents or out.result[self.var] != self.incumbents[-1]:
                self.fail("C03", "returned_solution_is_not_last_incumbent",
                          "returned objective %r, incumbents %r" % (out.result[self.var], self.incumbents))

    def summary(self):
        d = dict(self.counts)
        d["incumbents"] = len(self.incumbents)
        return d

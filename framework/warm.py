"""Compiles every registered function once (fills the numba cache of the current tree hash)."""
import time


def warm(task):
    t0 = time.time()
    from framework import nucsmap as M

    model = {"doms": [[0, 2], [0, 2], [0, 2]], "idx": [0, 1, 2], "off": [0, 0, 0],
             "props": [[[0, 1, 2], "alldifferent", []]]}
    n = 0
    for calg in ("bc", "shaving"):
        s = M.build_solver(model, {"calg": calg, "vh": "first", "dh": "min"})
        n += len(s.find_all())
    s = M.build_solver(model)
    s.minimize(0)
    import numpy as np

    for name in M.ALG:
        # direct-call entry points are separate dispatcher specialisations
        try:
            from framework import gen
            import random

            box, params = gen.gen_call(random.Random(1), name, {})
            M.run_propagator(name, box, params)
        except Exception:
            pass
    return {"solutions": n, "wall": time.time() - t0}

"""O-support: exact bounds hulls without enumeration (imports nothing from nucs).

For interval boxes the question "does the box contain a tuple that satisfies the constraint?" has a direct decision
procedure per constraint type (counting arguments, a greedy matching for alldifferent, a small flow for gcc, a scan of the
result variable for max/min, the table for relation). The bounds hull then follows by probing: the smallest (largest)
value v of variable i such that the box with x_i = v is feasible. This gives C05/C14 an exact oracle at any arity; on the
small scope it is cross-checked against the enumerating O-hull on every call where both apply (a disagreement makes the
run inconclusive - it would be a defect of the oracles, not of the code under test).
"""

SUPPORTED = {
    "and", "affine_geq", "affine_leq", "alldifferent", "count_eq", "dummy", "element_iv", "element_liv", "element_lic",
    "exactly_eq", "exactly_true", "gcc", "lexicographic_leq", "max_eq", "max_leq", "min_eq", "min_geq", "relation",
}


def _has(b, v):
    return b[0] <= v <= b[1]


def _has_other(b, v):
    return b[0] < v or b[1] > v or not _has(b, v) and b[0] <= b[1]


def _alldifferent(box):
    """Greedy matching on intervals: serve the values in increasing order, always the open interval that ends first."""
    import heapq

    n = len(box)
    order = sorted(range(n), key=lambda i: box[i][0])
    heap = []
    k = done = 0
    v = box[order[0]][0]
    while done < n:
        if not heap and k < n and box[order[k]][0] > v:
            v = box[order[k]][0]
        while k < n and box[order[k]][0] <= v:
            heapq.heappush(heap, box[order[k]][1])
            k += 1
        if heapq.heappop(heap) < v:
            return False
        done += 1
        v += 1
    return True


def _maxflow(cap, s, t):
    n = len(cap)
    flow = 0
    while True:
        prev = [-1] * n
        prev[s] = s
        q = [s]
        for u in q:
            for w in range(n):
                if prev[w] < 0 and cap[u][w] > 0:
                    prev[w] = u
                    q.append(w)
        if prev[t] < 0:
            return flow
        f = 10 ** 9
        w = t
        while w != s:
            f = min(f, cap[prev[w]][w])
            w = prev[w]
        w = t
        while w != s:
            cap[prev[w]][w] -= f
            cap[w][prev[w]] += f
            w = prev[w]
        flow += f


def _gcc(box, p):
    m = (len(p) - 1) // 2
    v0 = p[0]
    lows, ups = p[1:1 + m], p[1 + m:1 + 2 * m]
    n = len(box)
    if any(l > u for l, u in zip(lows, ups)):
        return False
    # every variable takes a value in [v0, v0+m); value j is taken between lows[j] and ups[j] times
    # circulation with lower bounds: S -> var [1,1], var -> value [0,1], value -> T [low, up], T -> S [0, inf)
    S, T = 0, 1
    var = lambda i: 2 + i  # noqa: E731
    val = lambda j: 2 + n + j  # noqa: E731
    SS, TT = 2 + n + m, 3 + n + m
    N = 4 + n + m
    cap = [[0] * N for _ in range(N)]
    excess = [0] * N

    def edge(u, w, lo, hi):
        cap[u][w] += hi - lo
        excess[w] += lo
        excess[u] -= lo

    for i in range(n):
        edge(S, var(i), 1, 1)
        a, b = box[i]
        any_val = False
        for j in range(m):
            if a <= v0 + j <= b:
                edge(var(i), val(j), 0, 1)
                any_val = True
        if not any_val:
            return False
    for j in range(m):
        edge(val(j), T, lows[j], ups[j])
    edge(T, S, 0, 10 ** 6)
    need = 0
    for u in range(N):
        if excess[u] > 0:
            cap[SS][u] += excess[u]
            need += excess[u]
        elif excess[u] < 0:
            cap[u][TT] += -excess[u]
    return _maxflow(cap, SS, TT) == need


def feasible(name, box, p):
    """True iff some tuple of the (non-empty, interval) box satisfies the constraint; None when not supported."""
    if any(a > b for a, b in box):
        return False
    n = len(box)
    if name == "dummy":
        return True
    if name == "and":
        xs, r = box[:-1], box[-1]
        all_one = all(_has(b, 1) for b in xs)
        some_not_one = any(b[0] < 1 or b[1] > 1 for b in xs)
        return (_has(r, 1) and all_one) or (_has(r, 0) and some_not_one)
    if name in ("affine_leq", "affine_geq"):
        a, c = p[:-1], p[-1]
        if name == "affine_leq":
            return sum(min(ai * b[0], ai * b[1]) for ai, b in zip(a, box)) <= c
        return sum(max(ai * b[0], ai * b[1]) for ai, b in zip(a, box)) >= c
    if name == "alldifferent":
        return _alldifferent(box)
    if name in ("count_eq", "exactly_eq", "exactly_true"):
        if name == "count_eq":
            xs, v, target = box[:-1], p[0], box[-1]
        elif name == "exactly_eq":
            xs, v, target = box, p[0], [p[1], p[1]]
        else:
            xs, v, target = box, 1, [p[0], p[0]]
        forced = sum(1 for b in xs if b[0] == b[1] == v)
        possible = sum(1 for b in xs if _has(b, v))
        return max(forced, target[0]) <= min(possible, target[1])
    if name == "element_iv":
        i, v = box
        return any(_has(v, p[k]) for k in range(max(i[0], 0), min(i[1], len(p) - 1) + 1))
    if name == "element_liv":
        l, i, v = box[:-2], box[-2], box[-1]
        return any(max(l[k][0], v[0]) <= min(l[k][1], v[1]) for k in range(max(i[0], 0), min(i[1], len(l) - 1) + 1))
    if name == "element_lic":
        l, i = box[:-1], box[-1]
        return any(_has(l[k], p[0]) for k in range(max(i[0], 0), min(i[1], len(l) - 1) + 1))
    if name == "gcc":
        return _gcc(box, p)
    if name == "lexicographic_leq":
        h = n // 2
        for k in range(h):
            lx, uy = box[k][0], box[h + k][1]
            if lx < uy:
                return True
            if lx > uy:
                return False
        return True
    if name in ("max_eq", "min_eq"):
        xs, y = box[:-1], box[-1]
        # the result m must be a value of y that no argument is forced to exceed (max) / fall below (min) and that some
        # argument can take: interval intersections only, so the cost does not depend on the width of the domains
        if name == "max_eq":
            lo = max(max(b[0] for b in xs), y[0])
            return any(max(lo, b[0]) <= min(y[1], b[1]) for b in xs)
        hi = min(min(b[1] for b in xs), y[1])
        return any(max(y[0], b[0]) <= min(hi, b[1]) for b in xs)
    if name == "max_leq":
        return max(b[0] for b in box[:-1]) <= box[-1][1]
    if name == "min_geq":
        return min(b[1] for b in box[:-1]) >= box[-1][0]
    if name == "relation":
        return any(all(_has(box[i], p[k + i]) for i in range(n)) for k in range(0, len(p) - n + 1, n)) if n else True
    return None


def hull(name, box, p):
    """Exact bounds hull (list of [lo, hi]) or None when no tuple satisfies; raises KeyError for unsupported types."""
    if name not in SUPPORTED:
        raise KeyError(name)
    if not feasible(name, box, p):
        return None
    out = []
    for i, (a, b) in enumerate(box):
        lo = a
        while lo < b:
            trial = list(box)
            trial[i] = [lo, lo]
            if feasible(name, trial, p):
                break
            lo += 1
        hi = b
        while hi > lo:
            trial = list(box)
            trial[i] = [hi, hi]
            if feasible(name, trial, p):
                break
            hi -= 1
        out.append([lo, hi])
    return out


WIDE = SUPPORTED - {"gcc"}


def _candidates(box, p, a, b):
    """Values of [a, b] at which the feasibility of x_i = v can change for the piecewise-constant types: every bound of the
    box, every parameter, every count / position 0..n and 0..len(p), each with its two neighbours - i.e. one representative of
    every region between consecutive breakpoints plus the breakpoints themselves."""
    raw = {a, b}
    for l, h in box:
        raw.add(l)
        raw.add(h)
    raw.update(p)
    raw.update(range(-1, len(box) + 2))
    raw.update(range(-1, len(p) + 2))
    out = set()
    for r in raw:
        for v in (r - 1, r, r + 1):
            if a <= v <= b:
                out.add(v)
    return sorted(out)


def hull_wide(name, box, p):
    """Exact bounds hull whose cost does not depend on the width of the domains. Linear inequalities: the feasibility of
    x_i = v is monotone in v, so the extreme supported values follow by bisection. All other supported types are defined by
    comparisons of values with bounds, parameters, counts and positions, so feasibility of x_i = v is constant between
    consecutive breakpoints (see _candidates) and probing the candidates in order is exact. Cross-checked against the scanning
    hull() and the enumerating O-hull wherever those apply."""
    if name not in WIDE:
        raise KeyError(name)
    if not feasible(name, box, p):
        return None
    out = []
    for i, (a, b) in enumerate(box):

        def feas(v):
            trial = list(box)
            trial[i] = [v, v]
            return feasible(name, trial, p)

        if name in ("affine_leq", "affine_geq"):
            lo, hi = a, b
            if not feas(a):  # feasible values form a suffix of [a, b]
                l, h = a, b  # feas(l) false, feas(h) true (the box is feasible, so an end of a monotone set is)
                if not feas(b):
                    raise AssertionError("linear feasibility is not monotone?")
                while h - l > 1:
                    m = (l + h) // 2
                    if feas(m):
                        h = m
                    else:
                        l = m
                lo = h
            if not feas(b):  # feasible values form a prefix
                l, h = a, b
                while h - l > 1:
                    m = (l + h) // 2
                    if feas(m):
                        l = m
                    else:
                        h = m
                hi = l
            out.append([lo, hi])
            continue
        cands = _candidates(box[:i] + box[i + 1:], p, a, b)
        lo = next(v for v in cands if feas(v))
        hi = next(v for v in reversed(cands) if feas(v))
        out.append([lo, hi])
    return out

"""Shared plumbing: tree location, cache keys, child-process environments, job pool.

Nothing in here imports nucs: the execution mode (interpreted / compiled / bounds-check build) is fixed by
environment variables that nucs and numba read at import time, so every workload runs in a child process
started with the right environment (see DESIGN.md section 8).
"""
import hashlib
import json
import os
import shutil
import subprocess
import sys
import time

VERIF = os.path.dirname(os.path.dirname(os.path.abspath(__file__)))
TREE = os.environ.get("NUCS_VERIF_TREE", "/repo")
WORK = os.environ.get("NUCS_VERIF_WORK", os.path.join(VERIF, ".work"))
PYTHON = "/venv/bin/python"
GUARD = "NUCS_VERIF"

MODES = ("interp", "jit", "bc")


def tree_hash(tree=None):
    """sha256 over every nucs/**/*.py of the tree under test (path + content)."""
    tree = tree or TREE
    h = hashlib.sha256()
    root = os.path.join(tree, "nucs")
    for dirpath, dirnames, filenames in sorted(os.walk(root)):
        dirnames.sort()
        for fn in sorted(filenames):
            if fn.endswith(".py"):
                p = os.path.join(dirpath, fn)
                h.update(os.path.relpath(p, tree).encode())
                with open(p, "rb") as f:
                    h.update(f.read())
    return h.hexdigest()[:16]


_HASH = None


def cache_dir(mode):
    global _HASH
    if _HASH is None:
        _HASH = tree_hash()
    suffix = "-bc" if mode == "bc" else ""
    return os.path.join(WORK, "numba-%s%s" % (_HASH, suffix))


def prune_caches(keep=3):
    """Delete numba caches that belong to other tree hashes (keep the newest few: mutant runs alternate)."""
    if not os.path.isdir(WORK):
        return
    cur = {os.path.basename(cache_dir("jit")), os.path.basename(cache_dir("bc"))}
    others = []
    for d in os.listdir(WORK):
        if d.startswith("numba-") and d not in cur:
            p = os.path.join(WORK, d)
            try:
                others.append((os.path.getmtime(p), p))
            except OSError:
                pass
    others.sort(reverse=True)
    for _, p in others[keep:]:
        shutil.rmtree(p, ignore_errors=True)


def child_env(mode, extra=None):
    env = dict(os.environ)
    env["PYTHONPATH"] = TREE + os.pathsep + VERIF
    env["PYTHONHASHSEED"] = "0"
    env["PYTHONDONTWRITEBYTECODE"] = "1"
    env["NUCS_VERIF_TREE"] = TREE
    env[GUARD] = "1"
    env["NUMBA_DISABLE_PERFORMANCE_WARNINGS"] = "1"
    env.pop("NUMBA_DISABLE_JIT", None)
    env.pop("NUMBA_BOUNDSCHECK", None)
    if mode == "interp":
        env["NUMBA_DISABLE_JIT"] = "1"
    elif mode == "jit":
        env["NUMBA_CACHE_DIR"] = cache_dir("jit")
    elif mode == "bc":
        env["NUMBA_CACHE_DIR"] = cache_dir("bc")
        env["NUMBA_BOUNDSCHECK"] = "1"
    else:
        raise ValueError(mode)
    env["NUCS_VERIF_MODE"] = mode
    if extra:
        env.update(extra)
    return env


class Job:
    """One child process: `python -m framework.worker <module> <function>` fed a JSON task on stdin."""

    def __init__(self, module, func, task, mode="interp", timeout=600, env=None, tag=None, stall_s=None):
        self.module, self.func, self.task, self.mode = module, func, task, mode
        self.timeout, self.env, self.tag = timeout, env, tag
        self.stall_s = stall_s  # kill when the per-case progress marker has not moved for that long
        self.stalled_case = None
        self.proc = None
        self.result = None  # dict on success
        self.status = None  # 'ok' | 'timeout' | 'crash'
        self.rc = None
        self.stderr = ""
        self.t0 = 0.0
        self.wall = 0.0
        self.out_path = None


def run_jobs(jobs, parallel=None, progress=None):
    """Runs jobs with at most `parallel` children at a time (subprocess, never multiprocessing.Pool)."""
    parallel = parallel or int(os.environ.get("VERIF_JOBS", "16"))
    os.makedirs(os.path.join(WORK, "jobs"), exist_ok=True)
    pending = list(jobs)
    running = []
    seq = 0
    while pending or running:
        while pending and len(running) < parallel:
            j = pending.pop(0)
            seq += 1
            base = os.path.join(WORK, "jobs", "%d-%d" % (os.getpid(), seq))
            j.out_path = base + ".out.json"
            j.err_path = base + ".err"
            in_path = base + ".in.json"
            with open(in_path, "w") as f:
                json.dump(j.task, f)
            j.in_path = in_path
            j.t0 = time.time()
            j.errf = open(j.err_path, "w")
            j.prog_path = base + ".progress"
            envx = dict(j.env or {})
            envx["NUCS_VERIF_PROGRESS"] = j.prog_path
            j.proc = subprocess.Popen(
                [PYTHON, "-m", "framework.worker", j.module, j.func, in_path, j.out_path],
                cwd=VERIF,
                env=child_env(j.mode, envx),
                stdout=j.errf,
                stderr=subprocess.STDOUT,
                start_new_session=True,
            )
            running.append(j)
        time.sleep(0.02)
        for j in list(running):
            rc = j.proc.poll()
            if rc is None:
                now = time.time()
                stalled = False
                if j.stall_s is not None and now - j.t0 > j.stall_s:
                    try:
                        stalled = now - os.path.getmtime(j.prog_path) > j.stall_s
                    except OSError:
                        stalled = False
                if now - j.t0 > j.timeout or stalled:
                    _kill_group(j.proc)
                    j.status = "timeout"
                    rc = j.proc.wait()
                    try:
                        with open(j.prog_path) as f:
                            j.stalled_case = json.load(f)
                    except Exception:
                        j.stalled_case = None
                else:
                    continue
            j.rc = rc
            j.wall = time.time() - j.t0
            j.errf.close()
            try:
                with open(j.err_path) as f:
                    j.stderr = f.read()[-20000:]
            except OSError:
                j.stderr = ""
            if j.status != "timeout" and rc != 0:
                try:
                    with open(j.prog_path) as f:
                        j.stalled_case = json.load(f)
                except Exception:
                    j.stalled_case = None
            if j.status != "timeout":
                if rc == 0 and os.path.exists(j.out_path):
                    try:
                        with open(j.out_path) as f:
                            j.result = json.load(f)
                        j.status = "ok"
                    except Exception as e:  # truncated output
                        j.status = "crash"
                        j.stderr += "\n[unreadable result: %r]" % (e,)
                else:
                    j.status = "crash"
            else:
                # a partial result may have been flushed
                if os.path.exists(j.out_path):
                    try:
                        with open(j.out_path) as f:
                            j.result = json.load(f)
                    except Exception:
                        j.result = None
            for p in (j.in_path, j.out_path, j.err_path, j.prog_path, j.prog_path + ".tmp"):
                try:
                    os.unlink(p)
                except OSError:
                    pass
            running.remove(j)
            if progress:
                progress(j)
    return jobs


def _kill_group(proc):
    import signal

    try:
        os.killpg(proc.pid, signal.SIGKILL)
    except OSError:
        try:
            proc.kill()
        except OSError:
            pass


def warm_cache(mode="jit", timeout=900):
    """Compile everything once in one process so that the fan-out only loads from the cache."""
    marker = os.path.join(cache_dir(mode), ".warm")
    if os.path.exists(marker):
        return 0.0
    t0 = time.time()
    j = Job("framework.warm", "warm", {}, mode=mode, timeout=timeout)
    run_jobs([j], parallel=1)
    if j.status != "ok":
        sys.stderr.write("cache warm-up failed (%s):\n%s\n" % (j.status, j.stderr[-3000:]))
        return -1.0
    with open(marker, "w") as f:
        f.write("ok\n")
    return time.time() - t0


def canon(obj):
    return json.dumps(obj, sort_keys=True, separators=(",", ":"))


def case_hash(obj):
    return hashlib.sha256(canon(obj).encode()).hexdigest()[:16]

"""C07 - a constraint is declared entailed only when it can no longer be violated."""
from framework import common
from framework import oracles as O
from framework.props import callfamily, modelfamily
from framework.report import Report

RULE = ("(a) call level: every 'entailed' answer of the exhaustive small scope and of random boxes (12 types that can "
        "answer it) is checked by enumerating the output box: all tuples must satisfy O-sem; (b) plane A in real "
        "searches: the enabled-flags row is copied on push, restored bit for bit on pop, and a flag is only ever "
        "cleared by an entailment answer of that very constraint in that pass; (c) differential: the same model is "
        "re-run with every entailment answer downgraded to 'consistent' and must yield the same solution multiset. "
        "distinct = distinct (type, box, params) resp. (model, cfg); non-trivial = an entailment answer was checked "
        "resp. a flag was cleared and a backtrack happened; (d) at every restart of an optimisation all constraints must be enabled again")


def main(tier, seed):
    rep = Report("C07", tier, seed, "exploration", RULE)
    if common.warm_cache("jit") < 0:
        rep.inconclusive.append("JIT cache warm-up failed")
    cjobs = callfamily.build_jobs("C07", tier, seed, O.ENTAIL_TYPES, zero_cap_stream=False)
    saved_types = None
    mjobs = modelfamily.build_jobs("C07", tier, seed, do=["enum", "opt"],
                                   monitors=["budget", "flags", "branch", "calls", "opthist"],
                                   jit_share=0.0, njobs=8, per_job=30 if tier == "quick" else 500,
                                   configs_per_model=2,
                                   task_extra={"downgrade": True, "nontrivial": "entailment"})
    common.run_jobs(cjobs + mjobs)
    callfamily.aggregate(rep, cjobs, O.ENTAIL_TYPES)
    d1 = rep.distinct
    rep.distinct = set()
    modelfamily.aggregate(rep, mjobs)
    rep.distinct = set("m%s" % x for x in rep.distinct) | set("c%s" % x for x in d1)
    rep.need("entailment_answers_checked", 3000, "call-level entailment oracle")
    rep.need("flags.flags_cleared", 500, "flag monitor")
    rep.need("flags.entailment_answers", 500, "flag monitor")
    rep.need("branch.restores_compared", 1000, "restore monitor")
    rep.need("runs_downgrade", 200, "downgrade differential")
    rep.need("opthist.resets", 200, "re-enabling at optimisation restarts")
    ent_types = [k for k in rep.counters if k.startswith("status.") and k.endswith(":2")]
    rep.counters["types_seen_answering_entailment"] = len(ent_types)
    if len(ent_types) < len(O.ENTAIL_TYPES):
        rep.inconclusive.append("only %d of %d types were seen answering entailment: %r" % (
            len(ent_types), len(O.ENTAIL_TYPES), ent_types))
    rep.assumptions = ["O-sem; output boxes larger than 20000 points are counted as skipped, not as checked"]
    return rep.finish()


def replay(rep_json):
    return modelfamily.replay_generic("C07", rep_json, monitors=("budget", "flags", "branch", "calls"))

"""C19 workload: searches around the configured stack height and problem sizes around the 8/16-bit index types.

Outcome of a case: 'correct' | 'error' (raised / refused) | 'wrong' (silent wrong, duplicated or missing solutions) |
'canary' (memory outside the configured arrays written) | 'wrap' (stack pointer went backwards without a backtrack).
"""
import os
import time

import numpy as np

from framework import progress

MODE = os.environ.get("NUCS_VERIF_MODE", "jit")
HEIGHTS = [2, 3, 4, 8, 16, 127, 128, 129, 253, 254, 255, 256, 257, 300, 512, 1024]
GUARD = 12
SENT = np.int32(-1234567)


def _expected_first(n, heur, k):
    """First k solutions of n free variables in first-not-instantiated order."""
    out = []
    if heur in ("min", "split_low"):
        for j in range(k):
            out.append(tuple((j >> (n - 1 - i)) & 1 for i in range(n)))
    elif heur == "max":
        for j in range(k):
            out.append(tuple(1 - ((j >> (n - 1 - i)) & 1) for i in range(n)))
    else:
        out.append(tuple(([0] if heur == "mid_odd" else [1]) + [1] * (n - 1)))  # only the first solution is pinned down
    return out


def stack_case(height, depth, heur, calg, k=6):
    """Chain of free variables needing `depth` nested choice points to reach the first solution."""
    from framework import nucsmap as M

    two_level = heur in ("mid", "mid_odd")
    odd = heur == "mid_odd"  # one single push first: the two-level pushes then start from an odd level
    if odd:
        n = (depth - 1) // 2 + 1
    else:
        n = depth // 2 if two_level else depth
    if n < 1 or (odd and n < 2):
        return None
    dom = [0, 2] if two_level else [0, 1]
    model = {"doms": [list(dom) for _ in range(n)], "idx": list(range(n)), "off": [0] * n,
             "props": [[[0], "dummy", []]]}
    if odd:
        model["doms"][0] = [0, 1]
    real_depth = (1 + 2 * (n - 1)) if odd else (2 * n if two_level else n)
    rec = {"height": height, "depth": real_depth, "heuristic": heur, "calg": calg, "n": n}
    try:
        s = M.build_solver(model, {"calg": calg, "vh": "first", "dh": "mid" if two_level else heur, "height": height})
    except Exception as e:
        rec["outcome"] = "error"
        rec["detail"] = "refused at construction: %s: %s" % (type(e).__name__, str(e)[:120])
        return rec
    # red-zone canaries: every stack becomes a view (of its OWN allocated height) into a larger sentinel-filled buffer
    phys = s.shr_domains_stack.shape[0]
    physu = s.dom_update_stack.shape[0]
    physf = s.not_entailed_propagators_stack.shape[0]
    rec["physical_rows"] = [phys, physu, physf]
    # (the buffers take the element types of the solver's own arrays: the harness must not pin them)
    big = np.full((phys + GUARD,) + s.shr_domains_stack.shape[1:], SENT, dtype=s.shr_domains_stack.dtype)
    big[:phys] = s.shr_domains_stack
    s.shr_domains_stack = big[:phys]
    USENT = int(np.iinfo(s.dom_update_stack.dtype).max) - 5
    bigu = np.full((physu + GUARD,) + s.dom_update_stack.shape[1:], USENT, dtype=s.dom_update_stack.dtype)
    bigu[:physu] = s.dom_update_stack
    s.dom_update_stack = bigu[:physu]
    bigf = np.zeros((physf + GUARD, s.not_entailed_propagators_stack.shape[1]),
                    dtype=s.not_entailed_propagators_stack.dtype)
    bigf[:physf] = s.not_entailed_propagators_stack
    s.not_entailed_propagators_stack = bigf[:physf]
    sols = []
    tops = []
    try:
        for sol in s.solve():
            sols.append(tuple(int(x) for x in sol))
            tops.append(int(s.stacks_top[0]))
            if len(sols) >= k:
                break
        rec["raised"] = None
    except Exception as e:
        rec["raised"] = "%s: %s" % (type(e).__name__, str(e)[:120])
    hit_d = bool(np.any(big[phys:] != SENT))
    hit_u = bool(np.any(bigu[physu:] != USENT))
    hit_f = bool(np.any(bigf[physf:]))
    guard_hit = hit_d or hit_u or hit_f
    rec["guard_rows_touched"] = int(np.sum(np.any(big[phys:] != SENT, axis=(1, 2)))) + int(
        np.sum(np.any(bigu[physu:] != USENT, axis=1))) + int(np.sum(np.any(bigf[physf:], axis=1)))
    rec["guard_hit_in"] = [n for n, h in (("shr_domains_stack", hit_d), ("dom_update_stack", hit_u),
                                          ("not_entailed_propagators_stack", hit_f)) if h]
    rec["max_top_seen"] = max(tops) if tops else None
    exp = _expected_first(n, heur, min(k, 2 ** min(n, 20)))
    # level 0 only ever holds the alternative of the first decision (variable 0): every other domain of that level must
    # still have its initial value, whatever happened above - a wrapped stack pointer writes here
    lvl0 = s.shr_domains_stack[0]
    init = np.array(model["doms"], dtype=np.int32)
    # (only the first k solutions are enumerated, all of them inside the first sub-tree of the variables 0 .. n-4: the
    # search never comes back to level 0 to decide one of those, so their level-0 domains cannot legitimately change)
    level0_corrupt = n >= 6 and not np.array_equal(lvl0[1:n - 3], init[1:n - 3])
    if level0_corrupt and not guard_hit:
        rec["outcome"] = "wrap"
        rec["detail"] = "level 0 of the domain stack was overwritten (domains of untouched variables changed from %r to " \
                        "%r)%s" % (init[1:4].tolist(), lvl0[1:4].tolist(),
                                   "" if not rec["raised"] else " before " + rec["raised"])
        return rec
    if guard_hit:
        rec["outcome"] = "canary"
        rec["detail"] = "%d guard row(s) beyond the allocated rows %r of %r were written" % (
            rec["guard_rows_touched"], rec["physical_rows"], rec["guard_hit_in"])
    elif rec["raised"]:
        rec["outcome"] = "error"
        rec["detail"] = rec["raised"]
    else:
        ok = len(set(sols)) == len(sols) and all(all(dom[0] <= v <= dom[1] for v in t) for t in sols)
        if two_level:
            ok = ok and bool(sols) and sols[0] == exp[0] and len(sols) == min(k, (2 if odd else 3) * 3 ** (n - 1))
        else:
            ok = ok and sols == exp
        if tops and real_depth <= 255 and tops[0] != real_depth:
            rec["outcome"] = "wrap"
            rec["detail"] = "stack pointer is %d at the first solution, %d nested choices were needed" % (
                tops[0], real_depth)
        elif ok:
            rec["outcome"] = "correct"
        else:
            rec["outcome"] = "wrong"
            rec["detail"] = "first solutions %r, expected %r" % ([list(t)[-8:] for t in sols[:3]],
                                                                 [list(t)[-8:] for t in exp[:3]])
    return rec


def judge_stack(rec):
    """Policy of DESIGN C19: strictly inside -> correct; the two boundary depths -> correct or error; beyond -> error
    or correct; silent wrong answers, canary hits and pointer wrap are violations everywhere."""
    h, d, o = rec["height"], rec["depth"], rec["outcome"]
    if o in ("wrong", "canary", "wrap"):
        return "silent_%s" % o
    if d < h - 1 and o != "correct" and h <= 254:
        return "in_capacity_search_refused"
    return None


def run_stack(task):
    t0 = time.time()
    res = {"evals": 0, "fails": [], "fail_counts": {}, "hashes": [], "samples": [], "counters": {}, "mode": MODE,
           "records": []}
    heights = task["heights"]
    for h in heights:
        for heur in ("min", "max", "split_low", "mid", "mid_odd"):
            for calg in ("bc", "shaving"):
                for d in range(max(1, h - 3), h + 4):
                    if (heur == "mid" and d % 2) or (heur == "mid_odd" and d % 2 == 0):
                        continue
                    if calg == "shaving" and h > 300:
                        continue
                    if task.get("only_calg") and calg != task["only_calg"]:
                        continue  # a shaving pass over > 300 variables per node is needlessly slow; bc covers these
                    progress.mark({"stack_case": [h, d, heur, calg]})
                    rec = stack_case(h, d, heur, calg)
                    if rec is None:
                        continue
                    res["evals"] += 1
                    res["hashes"].append("%d/%d/%s/%s" % (h, rec["depth"], heur, calg))
                    k = "outcome.%s.%s" % ("inside" if rec["depth"] < h - 1 else ("band" if rec["depth"] <= h else
                                                                                  "beyond"), rec["outcome"])
                    res["counters"][k] = res["counters"].get(k, 0) + 1
                    bad = judge_stack(rec)
                    if len(res["samples"]) < 3 and rec["depth"] >= h - 1 and heur == "min":
                        res["samples"].append({k2: rec[k2] for k2 in ("height", "depth", "heuristic", "calg", "outcome")})
                    if bad:
                        c = res["fail_counts"].get(bad, 0)
                        res["fail_counts"][bad] = c + 1
                        if c < 4:
                            res["fails"].append({"prop": "C19", "kind": bad, "detail": rec.get("detail", ""),
                                                 "stack_case": rec, "mode": MODE})
    res["wall"] = time.time() - t0
    return res


# --------------------------------------------------------------------------------- index-type limits of a problem
def size_case(kind, n):
    """kind: 'arity' (total constraint arity n), 'params' (total parameter count n), 'domains' (n shared domains),
    'types' (propagator type index n). The answer is known analytically (constraints are always true)."""
    from nucs.problems.problem import Problem
    from nucs.propagators import propagators as PP
    from nucs.solvers.backtrack_solver import BacktrackSolver

    rec = {"kind": kind, "n": n}
    try:
        if kind == "arity":
            nv = 300
            p = Problem([(0, 1)] * 3 + [(0, 0)] * (nv - 3))
            a = 255
            full, rest = divmod(n, a)
            for _ in range(full):
                p.add_propagator((list(range(a)), PP.ALG_DUMMY, []))
            if rest:
                p.add_propagator((list(range(rest)), PP.ALG_DUMMY, []))
            p.add_propagator(([0, 1, 2], PP.ALG_AFFINE_LEQ, [1, 1, 1, 1]))  # posted last: lives past the limit
            n_total = n + 3
            expect = 4  # 000 001 010 100
        elif kind == "params":
            p = Problem([(0, 1)] * 3)
            chunk = 200
            full, rest = divmod(n, chunk)
            for _ in range(full):
                p.add_propagator(([0], PP.ALG_RELATION, [0, 1] * (chunk // 2)))
            if rest:
                p.add_propagator(([0], PP.ALG_RELATION, ([0, 1] * rest)[:rest]))
            p.add_propagator(([0, 1, 2], PP.ALG_AFFINE_LEQ, [1, 1, 1, 1]))
            expect = 4
        elif kind == "domains":
            p = Problem([(0, 0)] * (n - 3) + [(0, 1)] * 3)
            p.add_propagator(([n - 3, n - 2, n - 1], PP.ALG_AFFINE_LEQ, [1, 1, 1, 1]))
            expect = 4
        else:  # 'types': a propagator type whose registry index is n
            while len(PP.COMPUTE_DOMAINS_FCTS) <= n:
                PP.register_propagator(PP.get_triggers_dummy, PP.get_complexity_dummy, PP.compute_domains_dummy)
            p = Problem([(0, 1)] * 3)
            p.add_propagator(([0, 1], n, []))
            p.add_propagator(([0, 1, 2], PP.ALG_AFFINE_LEQ, [1, 1, 1, 1]))
            expect = 4
        s = BacktrackSolver(p, log_level="ERROR")
        sols = [tuple(int(x) for x in sol) for sol in s.solve()]
        free = [t[-3:] if kind == "domains" else t[:3] for t in sols]
        good = sorted(free) == [(0, 0, 0), (0, 0, 1), (0, 1, 0), (1, 0, 0)] and len(sols) == expect
        rec["outcome"] = "correct" if good else "wrong"
        if not good:
            rec["detail"] = "%d solutions, projections %r" % (len(sols), sorted(set(free))[:6])
    except Exception as e:
        rec["outcome"] = "error"
        rec["detail"] = "%s: %s" % (type(e).__name__, str(e)[:160])
    return rec


def run_sizes(task):
    t0 = time.time()
    res = {"evals": 0, "fails": [], "fail_counts": {}, "hashes": [], "samples": [], "counters": {}, "mode": MODE}
    for kind, n in task["cases"]:
        progress.mark({"size_case": [kind, n]})
        rec = size_case(kind, n)
        res["evals"] += 1
        res["hashes"].append("%s/%d" % (kind, n))
        limit = {"arity": 65535 - 3, "params": 65535 - 4, "domains": 65536, "types": 255}[kind]
        zone = "inside" if n <= limit else "beyond"
        k = "size.%s.%s.%s" % (kind, zone, rec["outcome"])
        res["counters"][k] = res["counters"].get(k, 0) + 1
        bad = None
        if rec["outcome"] == "wrong":
            bad = "silent_wrong_answer_at_index_type_limit"
        elif zone == "inside" and rec["outcome"] != "correct" and n < limit - 8:
            bad = "in_capacity_problem_refused"
        if len(res["samples"]) < 4:
            res["samples"].append(rec)
        if bad:
            c = res["fail_counts"].get(bad, 0)
            res["fail_counts"][bad] = c + 1
            if c < 4:
                res["fails"].append({"prop": "C19", "kind": bad, "detail": rec.get("detail", ""), "size_case": rec,
                                     "mode": MODE})
    res["wall"] = time.time() - t0
    return res


# ------------------------------------------------------- a stack that is too small inside a worker process
def mp_stack_case(n, height, k, op):
    """MultiprocessingSolver on a model split into k sub-problems of which only the first needs a deep stack:
        s in [0,k-1] (split variable), b_1..b_n in [0,1], cost in [0, n+25]
        sum b_i + n*s <= n          (s = 1 forces every b_i to 0 by propagation, s >= 2 is infeasible)
        cost - sum b_i - 10*s = 1
    The worker of s = 0 needs n nested choice points, the others none. Solutions: 2^n (s = 0) + 1 (s = 1); min cost 1 and
    max cost max(n+1, 11). With a stack below n levels that worker fails; the call as a whole must raise / refuse or still be
    right - answering from the surviving workers alone (missing solutions, a non-optimal optimum, None) is a silent wrong
    answer."""
    from framework.planes import mpreal
    from nucs.problems.problem import Problem
    from nucs.propagators import propagators as PP
    from nucs.solvers.backtrack_solver import BacktrackSolver
    from nucs.solvers.multiprocessing_solver import MultiprocessingSolver

    rec = {"n": n, "height": height, "k": k, "op": op}
    S, B, COST = 0, list(range(1, n + 1)), n + 1

    def valid(t):
        return (0 <= t[S] < k and all(t[i] in (0, 1) for i in B) and sum(t[i] for i in B) + n * t[S] <= n
                and t[COST] - sum(t[i] for i in B) - 10 * t[S] == 1)

    try:
        p = Problem([(0, k - 1)] + [(0, 1)] * n + [(0, n + 25)])
        p.add_propagator((B + [S], PP.ALG_AFFINE_LEQ, [1] * n + [n, n]))
        p.add_propagator(([COST] + B + [S], PP.ALG_AFFINE_EQ, [1] + [-1] * n + [-10, 1]))
        parts = p.split(k, S)
        ms = MultiprocessingSolver([BacktrackSolver(q, stack_max_height=height, log_level="ERROR") for q in parts],
                                   log_level="ERROR")
    except Exception as e:
        rec["outcome"] = "error"
        rec["detail"] = "refused at construction: %s: %s" % (type(e).__name__, str(e)[:120])
        return rec

    def call():
        if op == "solve":
            return [tuple(int(x) for x in t) for t in ms.solve()]
        r = ms.minimize(COST) if op == "minimize" else ms.maximize(COST)
        return None if r is None else tuple(int(x) for x in r)

    box = mpreal.call_with_oracle(call, wall_cap=120)
    rec["how"] = box["how"]
    if box["how"] == "raised":
        rec["outcome"] = "error"
        rec["detail"] = box["exc"]
    elif box["how"] == "returned":
        got = box["value"]
        if op == "solve":
            ok = len(got) == 2 ** n + 1 and len(set(got)) == len(got) and all(valid(t) for t in got)
            if not ok:
                rec["detail"] = "%d solutions delivered (%d distinct, %d valid), %d exist" % (
                    len(got), len(set(got)), sum(1 for t in got if valid(t)), 2 ** n + 1)
        else:
            want = 1 if op == "minimize" else max(n + 1, 11)
            ok = got is not None and valid(got) and got[COST] == want
            if not ok:
                rec["detail"] = "returned %r, the optimum is cost %d" % (got, want)
        rec["outcome"] = "correct" if ok else "wrong"
    elif box["how"] in ("deadlock", "blocked_after_death"):
        rec["outcome"] = "hang"
        rec["detail"] = box.get("detail", "")
    else:
        rec["outcome"] = "undecided"
        rec["detail"] = "wall-clock cap"
    return rec


def judge_mp_stack(rec):
    n, h, o = rec["n"], rec["height"], rec["outcome"]
    if o == "wrong":
        return "silent_wrong_answer_from_surviving_workers"
    if o == "hang":
        return "hang_instead_of_error"
    if n < h - 1 and o == "error":
        return "in_capacity_search_refused"
    return None


def run_mp_stack(task):
    t0 = time.time()
    res = {"evals": 0, "fails": [], "fail_counts": {}, "hashes": [], "samples": [], "counters": {}, "mode": MODE}
    for n, h, k, op in task["cases"]:
        progress.mark({"mp_stack_case": [n, h, k, op]})
        rec = mp_stack_case(n, h, k, op)
        res["evals"] += 1
        res["hashes"].append("mp/%d/%d/%d/%s" % (n, h, k, op))
        zone = "inside" if n < h - 1 else ("band" if n <= h else "beyond")
        key = "mp_stack.%s.%s" % (zone, rec["outcome"])
        res["counters"][key] = res["counters"].get(key, 0) + 1
        if len(res["samples"]) < 2 and zone == "beyond":
            res["samples"].append(rec)
        bad = judge_mp_stack(rec)
        if bad:
            c = res["fail_counts"].get(bad, 0)
            res["fail_counts"][bad] = c + 1
            if c < 4:
                res["fails"].append({"prop": "C19", "kind": bad, "detail": rec.get("detail", ""), "mp_stack_case": rec,
                                     "mode": MODE})
    res["wall"] = time.time() - t0
    return res


def replay_capacity(task):
    w = task["witness"]
    fails = []
    if "stack_case" in w:
        c = w["stack_case"]
        rec = stack_case(c["height"], c["depth"], c["heuristic"], c["calg"])
        bad = judge_stack(rec)
        if bad:
            fails.append({"kind": bad, "detail": rec.get("detail", "")})
    elif "mp_stack_case" in w:
        c = w["mp_stack_case"]
        rec = mp_stack_case(c["n"], c["height"], c["k"], c["op"])
        bad = judge_mp_stack(rec)
        if bad:
            fails.append({"kind": bad, "detail": rec.get("detail", "")})
    elif "size_case" in w:
        c = w["size_case"]
        rec = size_case(c["kind"], c["n"])
        if rec["outcome"] == "wrong":
            fails.append({"kind": "silent_wrong_answer_at_index_type_limit", "detail": rec.get("detail", "")})
    return {"fails": fails}


def install_canaries(s):
    """Replaces the three stacks of a solver by views (of their own height) into larger sentinel-filled buffers.
    Returns a function telling which guard zones were written."""
    phys = s.shr_domains_stack.shape[0]
    physu = s.dom_update_stack.shape[0]
    physf = s.not_entailed_propagators_stack.shape[0]
    # (the buffers take the element types of the solver's own arrays: the harness must not pin them)
    big = np.full((phys + GUARD,) + s.shr_domains_stack.shape[1:], SENT, dtype=s.shr_domains_stack.dtype)
    big[:phys] = s.shr_domains_stack
    s.shr_domains_stack = big[:phys]
    USENT = int(np.iinfo(s.dom_update_stack.dtype).max) - 5
    bigu = np.full((physu + GUARD,) + s.dom_update_stack.shape[1:], USENT, dtype=s.dom_update_stack.dtype)
    bigu[:physu] = s.dom_update_stack
    s.dom_update_stack = bigu[:physu]
    bigf = np.zeros((physf + GUARD, s.not_entailed_propagators_stack.shape[1]),
                    dtype=s.not_entailed_propagators_stack.dtype)
    bigf[:physf] = s.not_entailed_propagators_stack
    s.not_entailed_propagators_stack = bigf[:physf]

    def hits():
        out = []
        if np.any(big[phys:] != SENT):
            out.append("shr_domains_stack (%d rows allocated)" % phys)
        if np.any(bigu[physu:] != USENT):
            out.append("dom_update_stack (%d rows allocated)" % physu)
        if np.any(bigf[physf:]):
            out.append("not_entailed_propagators_stack (%d rows allocated)" % physf)
        return out

    return hits


def tight_stack_case(model, cfg, max_solutions=3000):
    """In-capacity boundary test for arbitrary models: measure the depth a search needs, then re-run it with the
    smallest stack_max_height that completes, under canaries; results must be identical and no guard zone written."""
    from framework import nucsmap as M

    def run(height, canaries):
        s = M.build_solver(model, dict(cfg, height=height))
        hits = install_canaries(s) if canaries else (lambda: [])
        sols = []
        err = None
        try:
            for sol in s.solve():
                sols.append(tuple(int(x) for x in sol))
                if len(sols) >= max_solutions:
                    break
        except Exception as e:
            err = "%s: %s" % (type(e).__name__, str(e)[:120])
        return sols, err, hits(), int(s.statistics[11])

    ref, err, _, depth = run(128, False)
    rec = {"depth": depth}
    if err:
        rec["outcome"] = "skipped"
        rec["detail"] = err
        return rec
    for h in range(max(1, depth - 1), depth + 4):
        sols, err, hit, _ = run(h, True)
        if hit:
            rec.update(outcome="canary", height=h, detail="stack_max_height=%d (search depth %d): guard zone of %r "
                       "written%s" % (h, depth, hit, "" if not err else " before " + err))
            return rec
        if err:
            if "stack is full" in err:
                continue
            rec.update(outcome="error", height=h, detail="stack_max_height=%d: %s" % (h, err))
            return rec
        rec["height"] = h
        if sols != ref:
            rec.update(outcome="wrong", detail="stack_max_height=%d gives %d solutions, a large stack %d" % (
                h, len(sols), len(ref)))
        else:
            rec["outcome"] = "correct"
        return rec
    rec["outcome"] = "refused"
    rec["detail"] = "no height in [%d, %d] completes a search of depth %d" % (max(1, depth - 1), depth + 3, depth)
    return rec


def deep_gadget_model(k, rnd):
    """k free three-valued variables (mid value pushes two levels each) followed by a gadget that bound consistency
    leaves open and only shaving / search decides: the deepest node is reached with work left to do."""
    n = k + 2
    a, b = k, k + 1
    doms = [[0, 2] for _ in range(k)] + [[0, 3], [0, 3]]
    props = [[[a, b], "affine_eq", [1, 1, 3]], [[a, b, k - 1], "affine_eq", [1, -1, 3, 3]]]
    if rnd.random() < 0.5:
        props.append([[a, b], "alldifferent", []])
    return {"doms": doms, "idx": list(range(n)), "off": [0] * n, "props": props}

"""C15 workload: canonical traces (solution sequence + 13 statistics) of a deterministic case list, produced in
separate fresh processes per axis (mode, repetition, preceding history) and compared by the parent."""
import copy
import os
import random
import time

from framework import gen, progress
from framework import oracles as O

MODE = os.environ.get("NUCS_VERIF_MODE", "interp")


def case_list(seed, count, tier):
    rnd = random.Random(seed)
    cases = []
    while len(cases) < count:
        model, tags = gen.gen_model(rnd, {"circuit": 0.15, "gcc_zero_cap": False, "repeat": True})
        if not (2 <= O.model_points(model) <= 3000):
            continue
        cost = rnd.random() < 0.25 and all(a >= 0 for a, b in model["doms"])
        cfg = gen.gen_config(rnd, model, cost=cost)
        op = rnd.choice(["enum", "enum", "partial", "min", "max"])
        var = rnd.randrange(len(model["idx"]))
        cases.append({"kind": "random", "model": model, "cfg": cfg, "op": op, "var": var, "stop": rnd.randint(1, 4)})
    # values far from zero (bounds that add up beyond 32 bits, 10^6 offsets): the two modes do their arithmetic on different
    # integer types (numba promotes to 64 bits, numpy scalars under interpretation stay 32 bits wide) and must still agree
    far = 0
    while far < max(6, count // 5):
        model, tags = gen.gen_model(rnd, {"circuit": 0.0, "gcc_zero_cap": False, "repeat": True, "big": True, "big_p": 1.0})
        if not (2 <= O.model_points(model) <= 3000):
            continue
        cfg = gen.gen_config(rnd, model)
        cases.append({"kind": "random", "model": model, "cfg": cfg, "op": rnd.choice(["enum", "partial", "min", "max"]),
                      "var": rnd.randrange(len(model["idx"])), "stop": rnd.randint(1, 4), "far": True})
        far += 1
    # large planted models (arity up to 14), partially fixed so that the interpreted run stays short: both modes and every
    # history must agree on them too
    from framework.props import bigrun

    for _ in range(8 if tier == "quick" else 60):
        model, plant = bigrun.gen_big(rnd, {"max_vars": 16})
        sub = bigrun.restrict(model, plant, rnd, rnd.randint(3, 6))
        cfg = {"calg": rnd.choice(["bc", "bc", "shaving"]), "vh": rnd.choice(["first", "smallest", "greatest"]),
               "dh": rnd.choice(["min", "max", "mid", "split_low"])}
        cases.append({"kind": "random", "model": sub, "cfg": cfg, "op": rnd.choice(["partial", "partial", "min", "max"]),
                      "var": rnd.randrange(len(sub["idx"])), "stop": rnd.randint(1, 25), "large": True})
    # searches that use the whole choice-point stack, at the heights next to the limits of the 8-bit stack pointer:
    # both modes must agree, including on the error raised when the stack is full
    for h, n in ((16, 14), (16, 15), (16, 17), (128, 127), (128, 130), (254, 252), (254, 253), (254, 260)):
        cases.append({"kind": "deep", "height": h, "n": n})
    for name in (["queens-6", "golomb-5", "magic_sequence-8", "bibd-6", "schur-8", "qg5-5", "knapsack", "tsp-6"]
                 if tier == "quick" else
                 ["queens-6", "queens-8", "golomb-5", "golomb-6", "magic_sequence-8", "magic_sequence-20", "bibd-6",
                  "bibd-7", "schur-8", "schur-12", "qg5-5", "qg5-7", "knapsack", "tsp-6", "tsp-8", "alpha", "donald"]):
        cases.append({"kind": "shipped", "name": name})
    return cases


def _shipped(name):
    """(problem, solver kwargs, op, objective)"""
    from nucs.heuristics import heuristics as H

    fam, _, arg = name.partition("-")
    if fam == "queens":
        from nucs.examples.queens.queens_problem import QueensProblem

        return QueensProblem(int(arg)), {}, "enum", None
    if fam == "golomb":
        from nucs.examples.golomb.golomb_problem import GolombProblem, golomb_consistency_algorithm
        from nucs.solvers import consistency_algorithms as CA

        p = GolombProblem(int(arg))
        idx = CA.register_consistency_algorithm(golomb_consistency_algorithm)
        return p, {"consistency_alg_idx": idx}, "min", p.length_idx
    if fam == "magic_sequence":
        from nucs.examples.magic_sequence.magic_sequence_problem import MagicSequenceProblem

        n = int(arg)
        return MagicSequenceProblem(n), {"decision_domains": list(range(n - 1, -1, -1))}, "enum", None
    if fam == "bibd":
        from nucs.examples.bibd.bibd_problem import BIBDProblem

        return BIBDProblem(*((6, 10, 5, 3, 2) if arg == "6" else (7, 7, 3, 3, 1))), {}, "enum", None
    if fam == "schur":
        from nucs.examples.schur_lemma.schur_lemma_problem import SchurLemmaProblem

        return SchurLemmaProblem(int(arg)), {}, "enum", None
    if fam == "qg5":
        from nucs.examples.quasigroup.quasigroup_problem import Quasigroup5Problem

        return Quasigroup5Problem(int(arg)), {"var_heuristic_idx": H.VAR_HEURISTIC_SMALLEST_DOMAIN}, "enum", None
    if fam == "knapsack":
        from nucs.examples.knapsack.knapsack_problem import KnapsackProblem

        w = [40, 40, 38, 38, 36, 36, 34, 34, 32, 32, 30, 30]
        p = KnapsackProblem(w, w, 55)
        return p, {"dom_heuristic_idx": H.DOM_HEURISTIC_MAX_VALUE}, "max", p.weight
    if fam == "tsp":
        from nucs.examples.tsp.tsp_instances import TSP_INSTANCES
        from nucs.examples.tsp.tsp_problem import TSPProblem

        n = int(arg)
        costs = [list(r[:n]) for r in TSP_INSTANCES["GR17"][:n]]
        p = TSPProblem(costs)
        return p, {"decision_domains": list(range(n)), "var_heuristic_idx": H.VAR_HEURISTIC_MAX_REGRET,
                   "var_heuristic_params": costs, "dom_heuristic_idx": H.DOM_HEURISTIC_MIN_COST,
                   "dom_heuristic_params": costs}, "min", p.shr_domain_nb - 1
    if fam == "alpha":
        from nucs.examples.alpha.alpha_problem import AlphaProblem

        return AlphaProblem(), {"var_heuristic_idx": H.VAR_HEURISTIC_SMALLEST_DOMAIN}, "enum", None
    from nucs.examples.donald.donald_problem import DonaldProblem

    return DonaldProblem(), {"var_heuristic_idx": H.VAR_HEURISTIC_SMALLEST_DOMAIN}, "enum", None


def _observable(p):
    props = sorted((tuple(int(v) for v in vs), int(alg), tuple(int(x) for x in pr)) for vs, alg, pr in p.propagators)
    return ([list(map(int, d)) for d in p.shr_domains_lst], [int(x) for x in p.dom_indices_lst],
            [int(x) for x in p.dom_offsets_lst], props)


def _history_step(rnd, log):
    """One random piece of earlier solver use in this process."""
    from framework import nucsmap as M
    from nucs.heuristics import heuristics as H
    from nucs.propagators import propagators as PP
    from nucs.solvers import consistency_algorithms as CA

    kind = rnd.choice(["abandon", "suspend", "optimize", "register", "exhaust"])
    log.append(kind)
    while True:
        model, _ = gen.gen_model(rnd, {"circuit": 0.1, "gcc_zero_cap": False})
        if 2 <= O.model_points(model) <= 1500:
            break
    cfg = gen.gen_config(rnd, model)
    if kind == "abandon":
        M.build_solver(model, cfg)
    elif kind == "suspend":
        s = M.build_solver(model, cfg)
        g = s.solve()
        for _ in range(rnd.randint(1, 3)):
            if next(g, None) is None:
                break
        _KEEP.append(g)  # left suspended
    elif kind == "optimize":
        s = M.build_solver(model, cfg)
        s.minimize(rnd.randrange(len(model["idx"])))
    elif kind == "exhaust":
        for _ in M.build_solver(model, cfg).solve():
            pass
    else:
        what = rnd.choice(["propagator", "var_heuristic", "dom_heuristic", "consistency_algorithm"])
        log[-1] = "register_" + what
        # the registered function is a shipped one under a new index: a later case may be run through the new index
        # and must produce exactly the trace of the shipped index (same function)
        if what == "propagator":
            PP.register_propagator(PP.get_triggers_dummy, PP.get_complexity_dummy, PP.compute_domains_dummy)
        elif what == "var_heuristic":
            src = rnd.choice([H.VAR_HEURISTIC_FIRST_NOT_INSTANTIATED, H.VAR_HEURISTIC_SMALLEST_DOMAIN,
                              H.VAR_HEURISTIC_GREATEST_DOMAIN])
            _ALIAS["vh"][src] = H.register_var_heuristic(H.VAR_HEURISTIC_FCTS[src])
        elif what == "dom_heuristic":
            src = rnd.choice([H.DOM_HEURISTIC_MIN_VALUE, H.DOM_HEURISTIC_MAX_VALUE, H.DOM_HEURISTIC_SPLIT_LOW,
                              H.DOM_HEURISTIC_MID_VALUE])
            _ALIAS["dh"][src] = H.register_dom_heuristic(H.DOM_HEURISTIC_FCTS[src])
        else:
            src = rnd.choice([CA.CONSISTENCY_ALG_BC, CA.CONSISTENCY_ALG_SHAVING])
            _ALIAS["calg"][src] = CA.register_consistency_algorithm(CA.CONSISTENCY_ALG_FCTS[src])


_KEEP = []
_ALIAS = {"vh": {}, "dh": {}, "calg": {}}


def run_trace(task):
    from framework import nucsmap as M
    from framework.modelrun import stats_list
    from nucs.solvers.backtrack_solver import BacktrackSolver

    t0 = time.time()
    cases = case_list(task["cases_seed"], task["count"], task["tier"])
    hist = task.get("history_seed")
    hrnd = random.Random(hist) if hist is not None else None
    traces = []
    hlog = []
    problem_changes = []
    for ci, c in enumerate(cases):
        progress.mark({"trace_case": ci, "case": c if c["kind"] in ("shipped", "deep") else {
            "model": c["model"], "cfg": c["cfg"], "op": c["op"]}})
        if hrnd is not None:
            for _ in range(hrnd.randint(0, 3)):
                _history_step(hrnd, hlog)
        try:
            if c["kind"] == "deep":
                n = c["n"]
                dm = {"doms": [[0, 1]] * n, "idx": list(range(n)), "off": [0] * n,
                      "props": [[list(range(n)), "affine_leq", [1] * n + [1]]]}
                s = M.build_solver(dm, {"calg": "bc", "vh": "first", "dh": "min", "height": c["height"]})
                sols, err = [], None
                try:
                    for sol in s.solve():
                        sols.append([int(x) for x in sol])
                except Exception as e:
                    err = "%s: %s" % (type(e).__name__, str(e)[:80])
                traces.append({"solutions": [sum(x) * 1000 + (x.index(1) if 1 in x else -1) for x in sols],
                               "stats": stats_list(s), "error": err})
                continue
            if c["kind"] == "random":
                p = M.build_problem(c["model"])
                kw, op, obj = None, c["op"], c["var"]
            else:
                p, kw, op, obj = _shipped(c["name"])
            before = _observable(p)
            if hrnd is not None and hrnd.random() < 0.6:
                # the same problem object is used by an earlier solver (and split) before the run that is traced
                hlog.append("reuse_problem_object")
                s0 = M.build_solver(c.get("model"), c.get("cfg"), problem=p) if kw is None else BacktrackSolver(
                    p, log_level="ERROR", **kw)
                g = s0.solve()
                next(g, None)
                _KEEP.append(g)
                if hrnd.random() < 0.5:
                    p.split(2, 0)
                mid = _observable(p)
                if mid != before:
                    problem_changes.append({"case": ci, "detail": "problem fields changed by constructing a solver",
                                            "before": str(before)[:300], "after": str(mid)[:300]})
            cfg_run = c.get("cfg")
            if hrnd is not None and kw is None and hrnd.random() < 0.7:
                # run through indices registered during the history (same functions under new indices)
                cfg_run = dict(cfg_run)
                for key, table in (("vh", M.VH), ("dh", M.DH), ("calg", M.CALG)):
                    src = table.get(cfg_run[key]) if isinstance(cfg_run[key], str) else None
                    if src is not None and src in _ALIAS[key] and hrnd.random() < 0.7:
                        cfg_run[key] = _ALIAS[key][src]
                        hlog.append("use_registered_" + key)
            s = M.build_solver(c.get("model"), cfg_run, problem=p) if kw is None else BacktrackSolver(
                p, log_level="ERROR", **kw)
            sols = []
            if op in ("enum", "partial"):
                for sol in s.solve():
                    sols.append([int(x) for x in sol])
                    if op == "partial" and len(sols) >= c["stop"]:
                        break
                    if len(sols) > 20000:
                        break
            else:
                r = s.minimize(obj) if op == "min" else s.maximize(obj)
                sols = None if r is None else [[int(x) for x in r]]
            after = _observable(p)
            if after != before:
                problem_changes.append({"case": ci, "detail": "problem fields changed by solving",
                                        "before": str(before)[:300], "after": str(after)[:300]})
            traces.append({"solutions": sols, "stats": stats_list(s), "error": None})
        except Exception as e:
            traces.append({"solutions": None, "stats": None, "error": "%s: %s" % (type(e).__name__, str(e)[:200])})
    return {"traces": traces, "history": hlog, "problem_changes": problem_changes, "mode": MODE,
            "ncases": len(cases), "wall": time.time() - t0,
            "nontrivial": [i for i, t in enumerate(traces) if t["stats"] and t["stats"][10] >= 1]}

"""C16 workloads: in-contract inputs under (1) the plane-D source-level bounds sanitizer (interpreted),
(2) numba's bounds-check build with an unraisable-exception hook (compiled), (3) red-zone canaries."""
import itertools
import os
import random
import sys
import time

from framework import gen, progress
from framework import oracles as O

MODE = os.environ.get("NUCS_VERIF_MODE", "interp")
SAN = bool(os.environ.get("NUCS_VERIF_SANITIZER"))


def _shipped_small(tier):
    from nucs.heuristics import heuristics as H
    from nucs.solvers import consistency_algorithms as CA

    out = []
    from nucs.examples.queens.queens_problem import QueensProblem

    out.append(("queens-6", lambda: QueensProblem(6), {}, "enum", None, 60))
    out.append(("queens-6-shaving", lambda: QueensProblem(6), {"consistency_alg_idx": CA.CONSISTENCY_ALG_SHAVING},
                "enum", None, 20))
    from nucs.examples.bibd.bibd_problem import BIBDProblem

    out.append(("bibd-6", lambda: BIBDProblem(6, 10, 5, 3, 2), {}, "enum", None, 5))
    from nucs.examples.magic_sequence.magic_sequence_problem import MagicSequenceProblem

    out.append(("magic_sequence-8", lambda: MagicSequenceProblem(8), {}, "enum", None, 5))
    from nucs.examples.quasigroup.quasigroup_problem import Quasigroup5Problem

    out.append(("qg5-5", lambda: Quasigroup5Problem(5), {"var_heuristic_idx": H.VAR_HEURISTIC_SMALLEST_DOMAIN}, "enum",
                None, 5))
    from nucs.examples.sports_tournament_scheduling.sports_tournament_scheduling_problem import \
        SportsTournamentSchedulingProblem

    out.append(("tournament-6", lambda: SportsTournamentSchedulingProblem(6),
                {"var_heuristic_idx": H.VAR_HEURISTIC_SMALLEST_DOMAIN}, "enum", None, 3))
    from nucs.examples.schur_lemma.schur_lemma_problem import SchurLemmaProblem

    out.append(("schur-7", lambda: SchurLemmaProblem(7), {}, "enum", None, 40))
    from nucs.problems.circuit_problem import CircuitProblem

    out.append(("circuit-6-mid", lambda: CircuitProblem(6), {"dom_heuristic_idx": H.DOM_HEURISTIC_MID_VALUE}, "enum",
                None, 60))
    out.append(("circuit-5-split", lambda: CircuitProblem(5),
                {"dom_heuristic_idx": H.DOM_HEURISTIC_SPLIT_LOW, "var_heuristic_idx": H.VAR_HEURISTIC_GREATEST_DOMAIN},
                "enum", None, 60))
    from nucs.examples.tsp.tsp_instances import TSP_INSTANCES
    from nucs.examples.tsp.tsp_problem import TSPProblem

    n = 6
    costs = [list(r[:n]) for r in TSP_INSTANCES["GR17"][:n]]
    out.append(("tsp-6", lambda: TSPProblem(costs),
                {"decision_domains": list(range(n)), "var_heuristic_idx": H.VAR_HEURISTIC_MAX_REGRET,
                 "var_heuristic_params": costs, "dom_heuristic_idx": H.DOM_HEURISTIC_MIN_COST,
                 "dom_heuristic_params": costs}, "min", lambda p: p.shr_domain_nb - 1, None))
    from nucs.examples.golomb.golomb_problem import GolombProblem, golomb_consistency_algorithm

    gidx = CA.register_consistency_algorithm(golomb_consistency_algorithm)
    out.append(("golomb-5", lambda: GolombProblem(5), {"consistency_alg_idx": gidx}, "min", lambda p: p.length_idx,
                None))
    from nucs.examples.knapsack.knapsack_problem import KnapsackProblem

    w = [40, 40, 38, 38, 36, 36, 34, 34, 32, 32]
    out.append(("knapsack", lambda: KnapsackProblem(w, w, 55), {"dom_heuristic_idx": H.DOM_HEURISTIC_MAX_VALUE}, "max",
                lambda p: p.weight, None))
    from framework.props.shippedrun import SUDOKUS
    from nucs.examples.sudoku.sudoku_problem import SudokuProblem

    out.append(("sudoku-0", lambda: SudokuProblem(SUDOKUS[0]), {}, "enum", None, 2))
    return out


def _workloads(task, note):
    """Runs the in-contract workloads; `note(ctx)` is called after every unit of work."""
    from framework import modelrun
    from framework import nucsmap as M
    from nucs.solvers.backtrack_solver import BacktrackSolver

    rnd = random.Random(task["seed"])
    counts = {"calls": 0, "models": 0, "runs": 0, "shipped": 0, "units": 0}
    deadline = time.time() + task.get("deadline_s", 1e9)
    # (a) direct calls, every type
    for i in range(task.get("calls", 0)):
        name = O.TYPES[i % len(O.TYPES)]
        box, params = gen.gen_call(rnd, name, {"max_arity": 6, "width": 4, "allow_all_zero": True})
        if i % 4 == 3 and name in gen.STRETCHABLE:
            # the same shapes on values far from zero / domains up to ~10^9 wide (narrow scratch arrays, 16-bit offsets)
            box, params = gen.stretch_call(rnd, name, box, params)
            counts["calls_on_wide_domains"] = counts.get("calls_on_wide_domains", 0) + 1
        ctx = {"call": {"name": name, "box": box, "params": params}}
        progress.mark(ctx)
        try:
            M.run_propagator(name, box, params)
        except IndexError as e:
            note(ctx, "IndexError: " + str(e)[:150])
        except OverflowError as e:
            # a value of the contract's range that does not fit the element type of a scratch array: the compiled build
            # stores it wrapped and indexes with it
            note(ctx, "OverflowError (value does not fit a scratch array's element type): " + str(e)[:150])
        counts["calls"] += 1
        note(ctx)
        if (i & 255) == 0 and time.time() > deadline:
            break
    # (b) random models, both operations
    for i in range(task.get("models", 0)):
        if time.time() > deadline:
            break
        cost = i % 4 == 1
        model, tags = gen.gen_model(rnd, {"circuit": 0.2, "gcc_zero_cap": False, "nonneg": cost})
        if O.model_points(model) > 3000:
            continue
        cfg = gen.gen_config(rnd, model, cost=cost)
        if i % 5 == 4 and len(model["doms"]) >= 2:
            # choices restricted to a proper subset of the domains (the Golomb model does that): when propagation does not fix
            # the others the search runs out of decision domains before the problem is solved - it may stop or refuse, but not
            # index with "no domain"
            k = rnd.randint(1, len(model["doms"]) - 1)
            cfg["decision"] = sorted(rnd.sample(range(len(model["doms"])), k))
            counts["models_with_a_decision_subset"] = counts.get("models_with_a_decision_subset", 0) + 1
        ctx = {"model": model, "cfg": cfg}
        progress.mark(ctx)
        out = modelrun.run_enum(model, cfg, None, max_solutions=3000)
        if out.error and "IndexError" in out.error:
            note(ctx, out.error + ": " + str(out.error_detail))
        out = modelrun.run_opt(model, cfg, rnd.randrange(len(model["idx"])), rnd.choice(["min", "max"]), None)
        if out.error and "IndexError" in out.error:
            note(ctx, out.error + ": " + str(out.error_detail))
        if i % 3 == 0:
            # split + the producer side of the multiprocessing solver (in-process, recording queue)
            from framework.planes import mpshim

            try:
                parts = M.build_problem(model).split(rnd.randint(1, 4), rnd.randrange(len(model["idx"])))
                solvers = [M.build_solver(None, cfg, problem=q) for q in parts]
                mpshim.record_streams(solvers, rnd.choice(["solve", "minimize", "maximize"]),
                                      rnd.randrange(len(model["idx"])))
            except IndexError as e:
                note(ctx, "IndexError in split / *_and_queue: " + str(e)[:150])
            except ValueError:
                if "decision" not in cfg or len(cfg["decision"]) == len(model["doms"]):
                    raise
                counts["decision_subset_refused"] = counts.get("decision_subset_refused", 0) + 1  # an explicit refusal is fine
            counts["runs"] += 1
        counts["models"] += 1
        counts["runs"] += 2
        note(ctx)
    # (c) heuristics unit harness
    if task.get("units", True):
        from framework.props import heurunit

        ctx = {"unit_harness": "value heuristics, backtrack, variable heuristics"}
        progress.mark(ctx)
        r = heurunit.run_units({"seed": task["seed"], "tier": "quick", "random": task.get("unit_random", 100)})
        counts["units"] += r["calls"]
        for f in r["fails"]:
            if "IndexError" in f["detail"]:
                note(ctx, f["detail"])
        note(ctx)
    # (d) shipped models, small sizes
    if task.get("shipped", True):
        for name, make, kw, op, objf, limit in _shipped_small(task.get("tier", "quick")):
            if time.time() > deadline:
                break
            ctx = {"shipped": name}
            progress.mark(ctx)
            try:
                p = make()
                s = BacktrackSolver(p, log_level="ERROR", **kw)
                if op == "enum":
                    list(itertools.islice(s.solve(), limit))
                elif op == "min":
                    s.minimize(objf(p))
                else:
                    s.maximize(objf(p))
            except IndexError as e:
                note(ctx, "IndexError: " + str(e)[:150])
            counts["shipped"] += 1
            note(ctx)
    # (f) tight stacks: arbitrary models re-run with the smallest stack_max_height that completes, under canaries
    if task.get("canary", True):
        from framework.props import capacity

        for i in range(task.get("tight", 60)):
            if time.time() > deadline:
                break
            if i % 3 == 0:
                model = capacity.deep_gadget_model(rnd.randint(1, 5), rnd)
                cfg = {"calg": rnd.choice(["bc", "shaving"]), "vh": "first", "dh": rnd.choice(["mid", "mid", "min"])}
            else:
                model, _ = gen.gen_model(rnd, {"circuit": 0.1, "gcc_zero_cap": False, "widths": [2, 2, 3, 4]})
                if O.model_points(model) > 3000:
                    continue
                cfg = gen.gen_config(rnd, model)
            ctx = {"tight_stack": {"model": model, "cfg": cfg}}
            progress.mark(ctx)
            rec = capacity.tight_stack_case(model, cfg)
            counts["tight_stack_cases"] = counts.get("tight_stack_cases", 0) + 1
            if rec["outcome"] in ("canary", "wrong", "error"):
                note(ctx, "tight stack: " + rec.get("detail", rec["outcome"]))
            note(ctx)
    # (e) in-capacity searches with canaries around the stacks
    if task.get("canary", True):
        from framework.props import capacity

        for h in ((4, 7, 16) if SAN else (4, 7, 16, 64, 128)):
            for heur in ("min", "max", "split_low", "mid", "mid_odd"):
                for calg in ("bc", "shaving"):
                    for d in (h - 3, h - 2, h - 1, h):
                        if d < 1 or (heur == "mid" and d % 2) or (heur == "mid_odd" and d % 2 == 0) or \
                                time.time() > deadline:
                            continue
                        ctx = {"stack_case": [h, d, heur, calg]}
                        progress.mark(ctx)
                        rec = capacity.stack_case(h, d, heur, calg)
                        if rec and rec["outcome"] == "canary":
                            note(ctx, "red zone written: " + rec["detail"])
                        elif rec and rec.get("raised") and "IndexError" in rec["raised"] and \
                                "stack is full" not in rec["raised"]:
                            note(ctx, "search at depth %d with height %d: %s" % (d, h, rec["raised"]))
                        counts["canary_cases"] = counts.get("canary_cases", 0) + 1
                        note(ctx)
    return counts


def run_sanitized(task):
    """Child started with NUCS_VERIF_SANITIZER=1 (framework.worker installs plane D before importing nucs)."""
    from framework.planes import sanitizer as SZ

    assert SAN, "sanitizer not installed"
    t0 = time.time()
    fails = []
    seen = [0]

    def note(ctx, msg=None):
        if msg is not None:
            fails.append({"prop": "C16", "kind": "IndexError_under_interpretation", "detail": msg, "input": ctx})
        if len(SZ.REPORTS) > seen[0]:
            for r in SZ.REPORTS[seen[0]:]:
                r["context"] = ctx
            seen[0] = len(SZ.REPORTS)

    counts = _workloads(task, note)
    for r in SZ.REPORTS[:60]:
        fails.append({"prop": "C16", "kind": "sanitizer_" + r["kind"],
                      "detail": "%s evaluates index %d on an array of shape %r at %s" % (
                          r["expr"], r["value"], r["shape"], r["site"]), "site": r["site"], "input": r["context"]})
    return {"fails": fails, "counts": counts, "sanitizer": SZ.summary(), "reports": len(SZ.REPORTS), "mode": MODE,
            "wall": time.time() - t0}


def run_bc(task):
    """Child in the bounds-check build (NUMBA_BOUNDSCHECK=1): an out-of-range access inside a function reached through
    a function pointer surfaces as an *unraisable* exception; the hook records it with the current input and halts."""
    import json

    t0 = time.time()
    fails = []
    cur = [None]
    out_path = os.environ.get("NUCS_VERIF_OUT")

    def hook(unraisable):
        rec = {"prop": "C16", "kind": "bounds_check_build_unraisable",
               "detail": "%s: %s in %r" % (type(unraisable.exc_value).__name__, unraisable.exc_value,
                                           unraisable.object), "input": progress.LAST[0], "mode": MODE}
        if out_path:
            with open(out_path + ".tmp", "w") as f:
                json.dump({"fails": fails + [rec], "counts": {}, "halted": True, "mode": MODE, "wall": time.time() - t0},
                          f)
            os.replace(out_path + ".tmp", out_path)
        os._exit(0)  # halt_on_error: the caller would carry on in an undefined state

    sys.unraisablehook = hook

    def note(ctx, msg=None):
        cur[0] = ctx
        if msg is not None:
            fails.append({"prop": "C16", "kind": "IndexError_in_bounds_check_build", "detail": msg, "input": ctx,
                          "mode": MODE})

    counts = _workloads(task, note)
    if task.get("big"):
        # large planted models (arity <= 14) in the bounds-check build: scratch arrays sized by arity / value range
        from framework.props import bigrun

        r = bigrun.run_big({"seed": task["seed"] + 77, "count": task["big"], "pass_limit": 1500, "exc_prop": "C16",
                            "deadline_s": task.get("big_deadline_s", 60)})
        counts["large_model_runs"] = r["evals"]
        counts["large_model_passes"] = r["counters"].get("probe.bc_passes_monitored", 0)
        for f in r["fails"]:
            if f["prop"] == "C16":
                fails.append(dict(f, input={"model": f.get("model"), "cfg": f.get("cfg"), "op": f.get("op")}))
    return {"fails": fails, "counts": counts, "halted": False, "mode": MODE, "wall": time.time() - t0}

"""C08, trigger sufficiency tested directly: move one bound that get_triggers_<type> does NOT watch (shrink only)
on a box where the constraint is at its own fixpoint, and require that nothing the constraint should have reacted
to happened: no failure, no violated ground tuple, and for the BC types no new pruning."""
import os
import random
import time

from framework import gen
from framework import oracles as O

MODE = os.environ.get("NUCS_VERIF_MODE", "interp")
EV_MIN, EV_MAX, EV_GROUND = 1, 2, 4


def run_triggers(task):
    from framework import nucsmap as M
    import nucs.propagators.propagators as PP
    import numpy as np

    t0 = time.time()
    rnd = random.Random(task["seed"])
    res = {"evals": 0, "moves": 0, "fails": [], "fail_counts": {}, "per_type": {}, "hashes": [], "samples": [],
           "mode": MODE, "masks": {}}
    names = [n for n in O.TYPES if n != "dummy"]
    deadline = t0 + task.get("deadline_s", 1e9)
    for it in range(task["count"]):
        if (it & 63) == 0 and time.time() > deadline:
            break
        name = names[it % len(names)]
        box, params = gen.gen_call(rnd, name, {"max_arity": 4, "width": 3, "allow_all_zero": True})
        if name in ("no_sub_cycle", "scc") and (it // len(names)) % 4 != 0:
            # circuits of 5-10 vertices: narrow windows around a planted Hamiltonian cycle, some successors fixed - the shape
            # in which removing a value at a bound instantiates a successor and the consequences cascade
            m = rnd.randint(5, 10)
            perm = list(range(1, m))
            rnd.shuffle(perm)
            order = [0] + perm
            succ = [0] * m
            for i in range(m):
                succ[order[i]] = order[(i + 1) % m]
            box = [[max(0, succ[i] - rnd.randint(0, 2)), min(m - 1, succ[i] + rnd.randint(0, 2))] for i in range(m)]
            for i in rnd.sample(range(m), rnd.randint(0, m // 2)):
                box[i] = [succ[i], succ[i]]
            params = []
        # bring the box to the constraint's own fixpoint
        ok = True
        for _ in range(30):
            st, out = M.run_propagator(name, box, params)
            if st == 0 or any(a > b for a, b in out):
                ok = False
                break
            if out == box:
                break
            box = out
        else:
            ok = False
        if not ok:
            continue
        n = len(box)
        masks = [int(x) for x in PP.GET_TRIGGERS_FCTS[M.ALG[name]](n, np.array(params, dtype=np.int32))]
        res["masks"]["%s:%s" % (name, sorted(set(masks)))] = 1
        res["evals"] += 1
        moved_any = False
        for i in range(n):
            a, b = box[i]
            if a >= b:
                continue
            for bound, ev in ((0, EV_MIN), (1, EV_MAX)):
                if masks[i] & ev:
                    continue  # watched
                nb = [list(x) for x in box]
                if bound == 0:
                    nb[i][0] = a + 1
                else:
                    nb[i][1] = b - 1
                if nb[i][0] == nb[i][1] and (masks[i] & EV_GROUND):
                    continue  # the instantiation itself is watched
                res["moves"] += 1
                moved_any = True
                res["per_type"][name] = res["per_type"].get(name, 0) + 1
                st2, out2 = M.run_propagator(name, nb, params)
                fail = None
                if st2 == 0:
                    fail = ("unwatched_move_makes_it_fail",
                            "at its fixpoint %r; moving unwatched %s of variable %d gives %r on which it fails" % (
                                box, "MIN" if bound == 0 else "MAX", i, nb))
                elif all(x == y for x, y in nb):
                    t = tuple(x for x, _ in nb)
                    decisive = name not in ("no_sub_cycle", "scc") or O.is_permutation(t)
                    if decisive and not O.SEM[name](t, params):
                        fail = ("unwatched_move_reaches_violating_point",
                                "fixpoint %r; unwatched move instantiates everything to %r which violates it" % (
                                    box, list(t)))
                if fail is None and name in O.BC_TYPES and not (name == "gcc" and _zero(params)):
                    if out2 != nb:
                        fail = ("unwatched_move_enables_pruning",
                                "fixpoint %r; after moving unwatched %s of variable %d (mask %d) the constraint prunes "
                                "%r -> %r" % (box, "MIN" if bound == 0 else "MAX", i, masks[i], nb, out2))
                    elif O.box_points(nb) <= 3000:
                        h, _ = O.hull(name, nb, params)
                        if h is not None and h != nb:
                            fail = ("unwatched_move_leaves_non_hull",
                                    "fixpoint %r; after the unwatched move %r the bounds hull is %r" % (box, nb, h))
                if fail:
                    key = "%s|%s" % (fail[0], name)
                    c = res["fail_counts"].get(key, 0)
                    res["fail_counts"][key] = c + 1
                    if c < 5:
                        res["fails"].append({"prop": "C08", "kind": fail[0], "detail": fail[1], "mode": MODE,
                                             "call": {"name": name, "box": nb, "params": params},
                                             "fixpoint_box": box, "moved": [i, bound], "masks": masks})
        if moved_any:
            res["hashes"].append(hash((name, tuple(map(tuple, box)), tuple(params))))
            if len(res["samples"]) < 3 and it % 211 == 0:
                res["samples"].append({"type": name, "fixpoint_box": box, "params": params, "masks": masks})
    res["wall"] = time.time() - t0
    return res


def _zero(p):
    m = (len(p) - 1) // 2
    return any(u == 0 for u in p[1 + m:1 + 2 * m])


def aggregate(rep, jobs):
    for j in jobs:
        if j.status != "ok":
            rep.job_problem(j)
            continue
        r = j.result
        rep.evaluations += r["evals"]
        rep.count("triggers.boxes_at_fixpoint", r["evals"])
        rep.count("triggers.unwatched_moves_checked", r["moves"])
        for k, v in r["per_type"].items():
            rep.count("triggers.moves." + k, v)
        rep.counters["triggers.distinct_(type,mask set)"] = max(rep.counters.get("triggers.distinct_(type,mask set)", 0),
                                                               len(r["masks"]))
        if isinstance(rep.distinct, set):
            rep.distinct.update("t%d" % h for h in r["hashes"])
        for s in r["samples"][:1]:
            rep.sample(s)
        for f in r["fails"]:
            rep.violation(f)
        rep.add_class("stream:trigger_sufficiency:" + r["mode"], r["evals"])


# ------------------------------------------------------------------------------------- event x watcher matrix
KINDS = ["min", "max", "both", "ground", "shave_min", "shave_max"]


def event_model(rnd, wtype, kind):
    """A watcher constraint W on fresh variables plus a 'mover' relation(z, v) whose single execution moves exactly the
    bounds `kind` of one variable v of W. Returns (model, mover variables) or None."""
    for _ in range(30):
        box, params = gen.gen_call(rnd, wtype, {"max_arity": 4, "width": 4, "allow_all_zero": False})
        n = len(box)
        cands = [i for i in range(n) if box[i][1] - box[i][0] >= (2 if kind != "ground" else 1)]
        if wtype in ("and", "exactly_true"):
            cands = [i for i in range(n) if box[i] == [0, 1]] if kind in ("min", "max", "ground") else []
        if not cands:
            continue
        i = rnd.choice(cands)
        a, b = box[i]
        if kind in ("shave_min", "shave_max"):
            # the mover is the shaving algorithm: a gadget (v = q, v + q >= 2a+1 resp. <= 2b-1) that bound consistency
            # cannot use but a probe refutes, so that exactly the MIN resp. MAX of v is shaved
            doms = [list(x) for x in box] + [[a, b]]
            q = n
            g = [[[i, q], "affine_eq", [1, -1, 0]],
                 [[i, q], "affine_geq", [1, 1, 2 * a + 1]] if kind == "shave_min" else
                 [[i, q], "affine_leq", [1, 1, 2 * b - 1]]]
            model = {"doms": doms, "idx": list(range(n + 1)), "off": [0] * (n + 1),
                     "props": [[list(range(n)), wtype, params]] + g}
            if wtype in ("no_sub_cycle", "scc"):
                model["props"].insert(1, [list(range(n)), "alldifferent", []])
            return model, [i, q]
        if kind == "min":
            t = [0, a + 1, 1, b]
        elif kind == "max":
            t = [0, a, 1, b - 1]
        elif kind == "both":
            t = [0, a + 1, 1, b - 1]
        else:
            c = rnd.randint(a, b)
            t = [0, c, 1, c]
        doms = [list(x) for x in box] + [[0, 1]]
        z = n
        model = {"doms": doms, "idx": list(range(n + 1)), "off": [0] * (n + 1),
                 "props": [[list(range(n)), wtype, params], [[z, i], "relation", t]]}
        if wtype in ("no_sub_cycle", "scc"):
            # contract: the circuit constraints are posted together with alldifferent on the same variables
            model["props"].insert(1, [list(range(n)), "alldifferent", []])
        return model, [z, i]
    return None


def run_event_matrix(task):
    """For every constraint type x event kind: root pass (and full search) with the watcher run before the mover
    (schedule injection) and in the engine's own order, judged by the fixpoint monitor and by O-brute."""
    from framework import modelrun

    t0 = time.time()
    rnd = random.Random(task["seed"])
    res = {"evals": 0, "fails": [], "fail_counts": {}, "hashes": [], "samples": [], "mode": MODE, "cells": {},
           "counters": {}}
    types = [t for t in O.TYPES if t != "dummy"]
    for rep in range(task.get("repeats", 3)):
        for wtype in types:
            for kind in KINDS:
                em = event_model(rnd, wtype, kind)
                if em is None:
                    continue
                model, mover = em
                if O.model_points(model) > 20000:
                    continue
                exp = sorted(O.brute(model))
                shave = kind.startswith("shave")
                for forced in ((True, False) if (MODE == "interp" and not shave) else (False,)):
                    spec = {"budget": {}, "fixpoint": {"ofix": not shave}} if MODE == "interp" else None
                    if forced:
                        spec["schedule"] = {"seed": rep, "delay_vars": mover}
                    if shave and spec is not None:
                        spec["branch"] = {}
                    out = modelrun.run_enum(model, {"calg": "shaving" if shave else "bc", "vh": "first", "dh": "min"},
                                            spec)
                    res["evals"] += 1
                    res["cells"]["%s/%s" % (wtype, kind)] = 1
                    for k, v in out.monitor_counts.items():
                        if isinstance(v, (int, float)) and "max_" not in k and not k.endswith("limit"):
                            res["counters"][k] = res["counters"].get(k, 0) + v
                    fails = [f for f in out.monitor_fails if f["prop"] == "C08"]
                    fails += [dict(f, prop="C08", kind="shaving:" + f["kind"]) for f in out.monitor_fails
                              if f["prop"] == "C09" and f["kind"] == "watcher_not_queued_after_shave"]
                    if out.error:
                        fails.append({"prop": "C08", "kind": "event_matrix_run_failed:" + out.error,
                                      "detail": str(out.error_detail)})
                    elif sorted(out.solutions) != exp:
                        fails.append({"prop": "C08", "kind": "solutions_differ_in_event_matrix",
                                      "detail": "%d solutions, brute force %d" % (len(out.solutions), len(exp))})
                    for f in fails:
                        key = "%s|%s|%s" % (f["kind"], wtype, kind)
                        c = res["fail_counts"].get(key, 0)
                        res["fail_counts"][key] = c + 1
                        if c < 2:
                            res["fails"].append(dict(f, model=model, cfg={"calg": "shaving" if shave else "bc",
                                                                          "vh": "first", "dh": "min"},
                                                     mode=MODE, where="event_matrix:%s:%s:%s" % (
                                                         wtype, kind, "watcher_first" if forced else "engine_order")))
                res["hashes"].append(hash((wtype, kind, rep, str(model))))
                if len(res["samples"]) < 2 and kind == "both":
                    res["samples"].append({"watcher": wtype, "kind": kind, "model": model})
    res["wall"] = time.time() - t0
    return res


def aggregate_matrix(rep, jobs):
    cells = set()
    for j in jobs:
        if j.status != "ok":
            rep.job_problem(j)
            continue
        r = j.result
        rep.evaluations += r["evals"]
        rep.count("event_matrix.runs", r["evals"])
        cells.update(r["cells"])
        for k, v in r["counters"].items():
            rep.count(k, v)
        if isinstance(rep.distinct, set):
            rep.distinct.update("e%d" % h for h in r["hashes"])
        for s in r["samples"][:1]:
            rep.sample(s)
        for f in r["fails"]:
            rep.violation(f)
        rep.add_class("stream:event_matrix:" + r["mode"], r["evals"])
    rep.counters["event_matrix.(type,event) cells"] = len(cells)

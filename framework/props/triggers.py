"""C08, trigger sufficiency tested directly: move one bound that get_triggers_<type> does NOT watch (shrink only)
on a box where the constraint is at its own fixpoint, and require that nothing the constraint should have reacted
to happened: no failure, no violated ground tuple, and for the BC types no new pruning."""
import os
import random
import time

from framework import gen
from framework import oracles as O

MODE = os.environ.get("NUCS_VERIF_MODE", "interp")
EV_MIN, EV_MAX, EV_GROUND = 1, 2, 4


def run_triggers(task):
    from framework import nucsmap as M
    import nucs.propagators.propagators as PP
    import numpy as np

    t0 = time.time()
    rnd = random.Random(task["seed"])
    res = {"evals": 0, "moves": 0, "fails": [], "fail_counts": {}, "per_type": {}, "hashes": [], "samples": [],
           "mode": MODE, "masks": {}}
    names = [n for n in O.TYPES if n != "dummy"]
    deadline = t0 + task.get("deadline_s", 1e9)
    for it in range(task["count"]):
        if (it & 63) == 0 and time.time() > deadline:
            break
        name = names[it % len(names)]
        box, params = gen.gen_call(rnd, name, {"max_arity": 4, "width": 3, "allow_all_zero": True})
        # bring the box to the constraint's own fixpoint
        ok = True
        for _ in range(30):
            st, out = M.run_propagator(name, box, params)
            if st == 0 or any(a > b for a, b in out):
                ok = False
                break
            if out == box:
                break
            box = out
        else:
            ok = False
        if not ok:
            continue
        n = len(box)
        masks = [int(x) for x in PP.GET_TRIGGERS_FCTS[M.ALG[name]](n, np.array(params, dtype=np.int32))]
        res["masks"]["%s:%s" % (name, sorted(set(masks)))] = 1
        res["evals"] += 1
        moved_any = False
        for i in range(n):
            a, b = box[i]
            if a >= b:
                continue
            for bound, ev in ((0, EV_MIN), (1, EV_MAX)):
                if masks[i] & ev:
                    continue  # watched
                nb = [list(x) for x in box]
                if bound == 0:
                    nb[i][0] = a + 1
                else:
                    nb[i][1] = b - 1
                if nb[i][0] == nb[i][1] and (masks[i] & EV_GROUND):
                    continue  # the instantiation itself is watched
                res["moves"] += 1
                moved_any = True
                res["per_type"][name] = res["per_type"].get(name, 0) + 1
                st2, out2 = M.run_propagator(name, nb, params)
                fail = None
                if st2 == 0:
                    fail = ("unwatched_move_makes_it_fail",
                            "at its fixpoint %r; moving unwatched %s of variable %d gives %r on which it fails" % (
                                box, "MIN" if bound == 0 else "MAX", i, nb))
                elif all(x == y for x, y in nb):
                    t = tuple(x for x, _ in nb)
                    decisive = name not in ("no_sub_cycle", "scc") or O.is_permutation(t)
                    if decisive and not O.SEM[name](t, params):
                        fail = ("unwatched_move_reaches_violating_point",
                                "fixpoint %r; unwatched move instantiates everything to %r which violates it" % (
                                    box, list(t)))
                if fail is None and name in O.BC_TYPES and not (name == "gcc" and _zero(params)):
                    if out2 != nb:
                        fail = ("unwatched_move_enables_pruning",
                                "fixpoint %r; after moving unwatched %s of variable %d (mask %d) the constraint prunes "
                                "%r -> %r" % (box, "MIN" if bound == 0 else "MAX", i, masks[i], nb, out2))
                    elif O.box_points(nb) <= 3000:
                        h, _ = O.hull(name, nb, params)
                        if h is not None and h != nb:
                            fail = ("unwatched_move_leaves_non_hull",
                                    "fixpoint %r; after the unwatched move %r the bounds hull is %r" % (box, nb, h))
                if fail:
                    key = "%s|%s" % (fail[0], name)
                    c = res["fail_counts"].get(key, 0)
                    res["fail_counts"][key] = c + 1
                    if c < 5:
                        res["fails"].append({"prop": "C08", "kind": fail[0], "detail": fail[1], "mode": MODE,
                                             "call": {"name": name, "box": nb, "params": params},
                                             "fixpoint_box": box, "moved": [i, bound], "masks": masks})
        if moved_any:
            res["hashes"].append(hash((name, tuple(map(tuple, box)), tuple(params))))
            if len(res["samples"]) < 3 and it % 211 == 0:
                res["samples"].append({"type": name, "fixpoint_box": box, "params": params, "masks": masks})
    res["wall"] = time.time() - t0
    return res


def _zero(p):
    m = (len(p) - 1) // 2
    return any(u == 0 for u in p[1 + m:1 + 2 * m])


def aggregate(rep, jobs):
    for j in jobs:
        if j.status != "ok":
            rep.job_problem(j)
            continue
        r = j.result
        rep.evaluations += r["evals"]
        rep.count("triggers.boxes_at_fixpoint", r["evals"])
        rep.count("triggers.unwatched_moves_checked", r["moves"])
        for k, v in r["per_type"].items():
            rep.count("triggers.moves." + k, v)
        rep.counters["triggers.distinct_(type,mask set)"] = max(rep.counters.get("triggers.distinct_(type,mask set)", 0),
                                                               len(r["masks"]))
        if isinstance(rep.distinct, set):
            rep.distinct.update("t%d" % h for h in r["hashes"])
        for s in r["samples"][:1]:
            rep.sample(s)
        for f in r["fails"]:
            rep.violation(f)
        rep.add_class("stream:trigger_sufficiency:" + r["mode"], r["evals"])

"""C20 workload: every shipped model x sizes x configurations, each solution through an O-def validator,
counts / optima against independent references, symmetry-breaking relations."""
import collections
import os
import random
import time

from framework import progress
from framework import shipped as S

MODE = os.environ.get("NUCS_VERIF_MODE", "jit")

SUDOKUS = [
    [[0, 0, 0, 0, 3, 0, 0, 0, 0], [2, 8, 9, 0, 0, 0, 0, 0, 0], [0, 0, 5, 7, 0, 0, 0, 9, 0],
     [0, 0, 0, 0, 0, 0, 8, 0, 6], [0, 0, 0, 3, 0, 0, 1, 0, 0], [7, 1, 0, 0, 0, 6, 0, 0, 2],
     [0, 6, 3, 0, 0, 0, 0, 0, 0], [0, 0, 0, 0, 4, 0, 2, 0, 0], [0, 0, 1, 0, 5, 0, 6, 0, 0]],
    [[6, 0, 0, 0, 1, 0, 0, 8, 0], [5, 1, 7, 4, 0, 0, 0, 0, 0], [0, 0, 3, 0, 0, 0, 0, 4, 0],
     [0, 0, 0, 0, 0, 0, 0, 0, 1], [0, 0, 0, 5, 0, 0, 3, 0, 0], [1, 6, 0, 0, 0, 9, 0, 5, 2],
     [2, 5, 9, 6, 0, 0, 0, 0, 0], [0, 0, 0, 0, 7, 0, 0, 0, 0], [0, 0, 0, 0, 5, 0, 4, 0, 0]],
]


def instances(tier):
    """List of dicts: name, family, make() -> (problem, solver kwargs list), kind, validator, expect..."""
    q = tier == "quick"
    out = []
    from nucs.heuristics import heuristics as H
    from nucs.solvers import consistency_algorithms as CA

    BC, SH = CA.CONSISTENCY_ALG_BC, CA.CONSISTENCY_ALG_SHAVING
    generic = [dict(), dict(consistency_alg_idx=SH),
               dict(var_heuristic_idx=H.VAR_HEURISTIC_SMALLEST_DOMAIN, dom_heuristic_idx=H.DOM_HEURISTIC_MAX_VALUE),
               dict(var_heuristic_idx=H.VAR_HEURISTIC_GREATEST_DOMAIN, dom_heuristic_idx=H.DOM_HEURISTIC_SPLIT_LOW),
               dict(dom_heuristic_idx=H.DOM_HEURISTIC_MID_VALUE)]

    def add(**kw):
        kw.setdefault("cfgs", generic)
        kw.setdefault("kind", "enum")
        out.append(kw)

    from nucs.examples.queens.queens_problem import QueensProblem

    for n in range(1, (9 if q else 10) + 1):
        add(name="queens-%d" % n, family="queens", make=lambda n=n: QueensProblem(n), validator=S.v_queens(n),
            prefix_images=S.prefix_images_queens(n), images_apply_to_model=True,
            prefix_valid=lambda im, n=n: (sorted(im) == list(range(n)) and len(set(im[i] + i for i in range(n))) == n
                                          and len(set(im[i] - i for i in range(n))) == n),
            count=S.QUEENS[n - 1], split=(4, 0) if n in (6, 8) else None)
    from nucs.problems.latin_square_problem import LatinSquareProblem, LatinSquareRCProblem

    for n in range(1, (4 if q else 5) + 1):
        add(name="latin-%d" % n, family="latin_square", make=lambda n=n: LatinSquareProblem(list(range(n))),
            validator=S.v_latin(n), count=S.LATIN[n], cfgs=generic if n < 5 else generic[:1])
        if n <= 4:
            add(name="latin_rc-%d" % n, family="latin_square", make=lambda n=n: LatinSquareRCProblem(n),
                validator=S.v_latin_rc(n), count=S.LATIN[n], cfgs=generic[:3] if n == 4 else generic)
    from nucs.examples.quasigroup.quasigroup_problem import Quasigroup5Problem

    qg_lit = {7: 3, 8: 1, 9: 0, 10: 0}
    for n in range(5, (7 if q else 9) + 1):
        add(name="qg5-%d" % n, family="quasigroup", make=lambda n=n: Quasigroup5Problem(n, True),
            make_nosym=(lambda n=n: Quasigroup5Problem(n, False)) if n <= 7 else None,
            validator=S.v_latin_rc(n, qg5=True, idempotent=True), count=qg_lit.get(n),
            images=S.images_quasigroup_rc(n),
            cfgs=[dict(var_heuristic_idx=H.VAR_HEURISTIC_SMALLEST_DOMAIN)] + (generic[:2] if n <= 7 else []))
    from nucs.examples.magic_square.magic_square_problem import MagicSquareProblem

    for n in ([2, 3] if q else [2, 3, 4]):
        add(name="magic_square-%d" % n, family="magic_square", make=lambda n=n: MagicSquareProblem(n, True),
            make_nosym=(lambda n=n: MagicSquareProblem(n, False)) if n <= 3 else None,
            validator=S.v_magic_square(n), count={2: 0, 3: 1, 4: 880}[n], count_nosym={2: 0, 3: 8}.get(n),
            images=S.images_magic_square(n),
            cfgs=[dict(var_heuristic_idx=H.VAR_HEURISTIC_SMALLEST_DOMAIN, dom_heuristic_idx=H.DOM_HEURISTIC_MAX_VALUE)]
            + (generic[:2] if n <= 3 else []))
    from nucs.examples.magic_sequence.magic_sequence_problem import MagicSequenceProblem

    for n in ([4, 5, 6, 7, 8, 10, 12] if q else [4, 5, 6, 7, 8, 9, 10, 12, 16, 20, 30, 40, 60]):
        cnt = {4: 2, 5: 1, 6: 0}.get(n, 1)  # for n >= 7 exactly one magic sequence exists (n-4,2,1,0,...,0,1,0,0,0)
        add(name="magic_sequence-%d" % n, family="magic_sequence", make=lambda n=n: MagicSequenceProblem(n),
            validator=S.v_magic_sequence(n), count=cnt,
            cfgs=[dict(decision_domains=list(range(n - 1, -1, -1)))] + (generic[:3] if n <= 10 else []))
    from nucs.examples.golomb.golomb_problem import GolombProblem, golomb_consistency_algorithm

    galg = CA.register_consistency_algorithm(golomb_consistency_algorithm)
    for k in range(3, (7 if q else 8) + 1):
        for sym in (True, False):
            add(name="golomb-%d-%s" % (k, "sym" if sym else "nosym"), family="golomb", kind="min",
                make=lambda k=k, sym=sym: GolombProblem(k, sym), objective=lambda p: p.length_idx,
                validator=S.v_golomb(k), optimum=S.GOLOMB[k],
                cfgs=[dict(consistency_alg_idx=galg), dict()] + ([dict(consistency_alg_idx=SH)] if k <= 5 else []) + (
                    # the model's own consistency algorithm under the generic heuristics
                    [dict(consistency_alg_idx=galg, dom_heuristic_idx=H.DOM_HEURISTIC_MAX_VALUE),
                     dict(consistency_alg_idx=galg, var_heuristic_idx=H.VAR_HEURISTIC_SMALLEST_DOMAIN,
                          dom_heuristic_idx=H.DOM_HEURISTIC_MAX_VALUE),
                     dict(consistency_alg_idx=galg, var_heuristic_idx=H.VAR_HEURISTIC_GREATEST_DOMAIN),
                     dict(consistency_alg_idx=galg, dom_heuristic_idx=H.DOM_HEURISTIC_MID_VALUE),
                     dict(consistency_alg_idx=galg, var_heuristic_idx=H.VAR_HEURISTIC_GREATEST_DOMAIN,
                          dom_heuristic_idx=H.DOM_HEURISTIC_SPLIT_LOW)] if (k <= 7 and sym) or k <= 6 else
                    [dict(consistency_alg_idx=galg, dom_heuristic_idx=H.DOM_HEURISTIC_MAX_VALUE)]))
            # ... and under search orders other than the default one (the custom algorithm reasons about "the marks placed so
            # far": decision domains restricted to the marks, listed backwards, all variables backwards) x every heuristic pair
            if (k in (5, 6)) or (k == 7 and sym) or (k == 8 and sym and not q):
                marks = list(range(k - 1))
                nvar = k * (k - 1) // 2
                orders = [("marks", marks), ("marks_reversed", marks[::-1]), ("all_reversed", list(range(nvar - 1, -1, -1)))]
                vhs = [H.VAR_HEURISTIC_FIRST_NOT_INSTANTIATED, H.VAR_HEURISTIC_SMALLEST_DOMAIN,
                       H.VAR_HEURISTIC_GREATEST_DOMAIN]
                dhs = [H.DOM_HEURISTIC_MIN_VALUE, H.DOM_HEURISTIC_MAX_VALUE, H.DOM_HEURISTIC_MID_VALUE,
                       H.DOM_HEURISTIC_SPLIT_LOW]
                cf = []
                for oname, dd in orders:
                    for vh in vhs:
                        for dh in dhs:
                            if k >= 7 and q and vh != H.VAR_HEURISTIC_GREATEST_DOMAIN:
                                continue
                            if k == 8 and not (vh == H.VAR_HEURISTIC_GREATEST_DOMAIN and dh in dhs[2:]):
                                continue
                            cf.append(dict(consistency_alg_idx=galg, decision_domains=list(dd), var_heuristic_idx=vh,
                                           dom_heuristic_idx=dh))
                add(name="golomb-%d-%s-orders" % (k, "sym" if sym else "nosym"), family="golomb", kind="min",
                    make=lambda k=k, sym=sym: GolombProblem(k, sym), objective=lambda p: p.length_idx,
                    validator=S.v_golomb(k), optimum=S.GOLOMB[k], cfgs=cf)
    from nucs.examples.bibd.bibd_problem import BIBDProblem

    for prm, cnt in ([((6, 10, 5, 3, 2), 1), ((7, 7, 3, 3, 1), 1)] + ([] if q else [((8, 14, 7, 4, 3), 92)])):
        add(name="bibd-%s" % (prm,), family="bibd", make=lambda prm=prm: BIBDProblem(*prm), validator=S.v_bibd(*prm),
            count=cnt, make_nosym=lambda prm=prm: BIBDProblem(*prm, symmetry_breaking=False), nosym_limit=30,
            prefix_images=S.prefix_images_bibd(prm[0], prm[1]),
            prefix_valid=lambda im, prm=prm: S.v_bibd(*prm)(im) is None,
            cfgs=generic[:2] if prm[0] < 8 else generic[:1])
    from nucs.examples.schur_lemma.schur_lemma_problem import SchurLemmaProblem

    for n in (list(range(3, 11)) + [13, 14] if q else range(3, 17)):
        add(name="schur-%d" % n, family="schur", make=lambda n=n: SchurLemmaProblem(n, True),
            make_nosym=lambda n=n: SchurLemmaProblem(n, False), validator=S.v_schur(n),
            prefix_images=S.prefix_images_schur(n),
            count_nosym="schur" if n <= (11 if q else 14) else (0 if n >= 14 else None),
            cfgs=generic[:2] if n <= 9 else generic[:1])
    from nucs.examples.sports_tournament_scheduling.sports_tournament_scheduling_problem import \
        SportsTournamentSchedulingProblem

    for n in ([4, 6] if q else [4, 6, 8]):
        add(name="tournament-%d" % n, family="sports_tournament", make=lambda n=n: SportsTournamentSchedulingProblem(n),
            make_nosym=(lambda n=n: SportsTournamentSchedulingProblem(n, False)) if n <= 4 else None,
            validator=S.v_tournament(n), limit=1 if n >= 8 else (200 if n == 6 else None),
            cfgs=[dict(var_heuristic_idx=H.VAR_HEURISTIC_SMALLEST_DOMAIN)] + (generic[:2] if n <= 4 else []))
    # eight and more teams: the first 60 schedules under several search strategies, with and without symmetry breaking (the
    # per-period cardinality constraints only start to matter there, and the first schedule of the README's strategy hides a lot)
    for n in ([8] if q else [8, 10]):
        for sym in (True, False):
            add(name="tournament-%d-%s-many" % (n, "sym" if sym else "nosym"), family="sports_tournament",
                make=lambda n=n, sym=sym: SportsTournamentSchedulingProblem(n, sym), validator=S.v_tournament(n),
                limit=60 if n == 8 else 6,
                cfgs=([dict(var_heuristic_idx=H.VAR_HEURISTIC_SMALLEST_DOMAIN), dict(),
                       dict(var_heuristic_idx=H.VAR_HEURISTIC_SMALLEST_DOMAIN, dom_heuristic_idx=H.DOM_HEURISTIC_MAX_VALUE)]
                      # (greatest-domain / split-low needs minutes for 60 schedules once the symmetries are left in)
                      + ([dict(var_heuristic_idx=H.VAR_HEURISTIC_GREATEST_DOMAIN,
                               dom_heuristic_idx=H.DOM_HEURISTIC_SPLIT_LOW)] if sym else []))
                if n == 8 else [dict(var_heuristic_idx=H.VAR_HEURISTIC_SMALLEST_DOMAIN)])
    from nucs.examples.knapsack.knapsack_problem import KnapsackProblem

    rnd = random.Random(7)
    ks = [([40, 40, 38, 38, 36, 36, 34, 34, 32, 32, 30, 30, 28, 28, 26, 26, 24, 24, 22, 22],) * 2 + (55,)]
    for _ in range(4 if q else 20):
        m = rnd.randint(3, 9)
        ks.append(([rnd.randint(1, 30) for _ in range(m)], [rnd.randint(1, 30) for _ in range(m)], rnd.randint(5, 80)))
    for i, (w, v, c) in enumerate(ks):
        add(name="knapsack-%d" % i, family="knapsack", kind="max", make=lambda w=w, v=v, c=c: KnapsackProblem(w, v, c),
            objective=lambda p: p.weight, validator=S.v_knapsack(w, v, c), optimum=S.knapsack_opt(w, v, c),
            cfgs=[dict(dom_heuristic_idx=H.DOM_HEURISTIC_MAX_VALUE)] + (generic[:2] if i else []))
    from nucs.problems.circuit_problem import CircuitProblem

    for n in range(2, (8 if q else 9) + 1):
        add(name="circuit-%d" % n, family="circuit", make=lambda n=n: CircuitProblem(n), validator=S.v_circuit(n),
            count=S.count_circuits(n), cfgs=generic if n <= 6 else (generic[:3] if n <= 8 else generic[:1]))
    from nucs.examples.tsp.tsp_instances import TSP_INSTANCES
    from nucs.examples.tsp.tsp_problem import TSPProblem

    for iname in ("GR17", "GR21", "GR24"):
        full = TSP_INSTANCES[iname]
        for n in ([4, 5, 6, 7] if q else [4, 5, 6, 7, 8, 9, 10]):
            costs = [list(r[:n]) for r in full[:n]]
            add(name="tsp-%s-%d" % (iname, n), family="tsp", kind="min", make=lambda costs=costs: TSPProblem(costs),
                objective=lambda p: p.shr_domain_nb - 1, validator=S.v_tsp(costs), optimum=S.held_karp(tuple(
                    tuple(r) for r in costs)),
                cfgs=[dict(decision_domains=list(range(n)), var_heuristic_idx=H.VAR_HEURISTIC_MAX_REGRET,
                           var_heuristic_params=costs, dom_heuristic_idx=H.DOM_HEURISTIC_MIN_COST,
                           dom_heuristic_params=costs),
                      dict(decision_domains=list(range(n)))] + ([dict(consistency_alg_idx=SH)] if n <= 6 else []))
    # random asymmetric instances (the shipped matrices are all symmetric): optimum vs Held-Karp, and every Hamiltonian
    # circuit of the complete graph must be enumerated ((n-1)! of them, each with its right cost)
    arnd = random.Random(11)
    for i in range(6 if q else 30):
        n = arnd.randint(4, 6 if q else 7)
        costs = [[0 if a == b else arnd.randint(1, 60) for b in range(n)] for a in range(n)]
        add(name="tsp-asym-%d-%d" % (n, i), family="tsp", kind="min", make=lambda costs=costs: TSPProblem(costs),
            objective=lambda p: p.shr_domain_nb - 1, validator=S.v_tsp(costs),
            optimum=S.held_karp(tuple(tuple(r) for r in costs)),
            cfgs=[dict(decision_domains=list(range(n)), var_heuristic_idx=H.VAR_HEURISTIC_MAX_REGRET,
                       var_heuristic_params=costs, dom_heuristic_idx=H.DOM_HEURISTIC_MIN_COST,
                       dom_heuristic_params=costs), dict(decision_domains=list(range(n)))])
        if n <= 6:
            add(name="tsp-asym-all-%d-%d" % (n, i), family="tsp", make=lambda costs=costs: TSPProblem(costs),
                validator=S.v_tsp(costs), count=S.count_circuits(n), cfgs=[dict(decision_domains=list(range(n)))])
    from nucs.examples.sudoku.sudoku_problem import SudokuProblem

    for i, g in enumerate(SUDOKUS):
        add(name="sudoku-%d" % i, family="sudoku", make=lambda g=g: SudokuProblem(g), validator=S.v_sudoku(g),
            count="sudoku", givens=g, cfgs=generic[:3])
    from nucs.examples.alpha.alpha_problem import AlphaProblem
    from nucs.examples.donald.donald_problem import DonaldProblem

    add(name="alpha", family="alpha", make=lambda: AlphaProblem(), validator=None, alpha=True, count=1,
        cfgs=[dict(var_heuristic_idx=H.VAR_HEURISTIC_SMALLEST_DOMAIN)] + ([] if q else generic[:2]))
    add(name="donald", family="donald", make=lambda: DonaldProblem(), validator=None, donald=True, count=1,
        cfgs=[dict(var_heuristic_idx=H.VAR_HEURISTIC_SMALLEST_DOMAIN)] + generic[:2])
    return out


def run_shipped(task):
    from nucs.solvers.backtrack_solver import BacktrackSolver
    from nucs.solvers.multiprocessing_solver import MultiprocessingSolver

    t0 = time.time()
    res = {"evals": 0, "fails": [], "fail_counts": {}, "hashes": [], "nontrivial": [], "samples": [], "counters": {},
           "mode": MODE, "families": {}}
    insts = instances(task["tier"])
    mine = [x for i, x in enumerate(insts) if i % task["nchunks"] == task["chunk"]]
    res["catalogue_size"] = len(insts)
    deadline = t0 + task.get("deadline_s", 1e9)

    def cnt(k, n=1):
        res["counters"][k] = res["counters"].get(k, 0) + n

    def fail(kind, detail, inst, cfg_i):
        key = "%s|%s" % (kind, inst["family"])
        c = res["fail_counts"].get(key, 0)
        res["fail_counts"][key] = c + 1
        if c < 4:
            res["fails"].append({"prop": "C20", "kind": kind, "detail": detail, "instance": inst["name"],
                                 "config_index": cfg_i, "mode": MODE})

    def solve_all(problem, kw, validator, limit=None):
        s = BacktrackSolver(problem, log_level="ERROR", **kw)
        sols = []
        bad = None
        for sol in s.solve():
            t = tuple(int(x) for x in sol)
            sols.append(t)
            if validator is not None and bad is None:
                w = validator(t)
                if w:
                    bad = (t, w)
            if limit is not None and len(sols) >= limit:
                break
        return sols, bad

    for inst in mine:
        if time.time() > deadline:
            res["truncated"] = True
            break
        progress.flush(res)
        fam = inst["family"]
        res["families"][fam] = res["families"].get(fam, 0) + 1
        sym_sets = []
        for ci, kw in enumerate(inst["cfgs"]):
            progress.mark({"instance": inst["name"], "config_index": ci})
            problem = inst["make"]()
            validator = inst["validator"]
            if inst.get("alpha"):
                validator = S.v_alpha(problem.solution_as_dict)
            if inst.get("donald"):
                validator = S.v_donald(problem.solution_as_dict)
            res["evals"] += 1
            h = "%s#%d" % (inst["name"], ci)
            res["hashes"].append(h)
            try:
                if inst["kind"] == "enum":
                    sols, bad = solve_all(problem, kw, validator, inst.get("limit"))
                    cnt("solutions_validated", len(sols))
                    cnt("solutions_validated." + fam, len(sols))
                    if sols:
                        res["nontrivial"].append(h)
                    if bad:
                        fail("invalid_object", "%s: solution %r: %s" % (inst["name"], list(bad[0])[:40], bad[1]), inst,
                             ci)
                    if len(set(sols)) != len(sols):
                        fail("duplicate_solution", "%s yields a solution twice" % inst["name"], inst, ci)
                    exp = inst.get("count")
                    if exp == "sudoku":
                        exp = S.sudoku_count(inst["givens"])
                    if exp is not None and inst.get("limit") is None:
                        cnt("counts_compared")
                        if len(sols) != exp:
                            fail("count_differs_from_reference", "%s: %d solutions, reference %d" % (
                                inst["name"], len(sols), exp), inst, ci)
                    sym_sets.append(set(sols) if inst.get("limit") is None else None)
                    if len(res["samples"]) < 5 and sols and ci == 0:
                        res["samples"].append({"instance": inst["name"], "solutions": len(sols),
                                               "first": list(sols[0])[:30], "reference_count": exp})
                    # multiprocessing where a split is meaningful
                    if inst.get("split") and ci == 0:
                        k, var = inst["split"]
                        ms = MultiprocessingSolver([BacktrackSolver(p, log_level="ERROR", **kw)
                                                    for p in inst["make"]().split(k, var)], log_level="ERROR")
                        msols = [tuple(int(x) for x in s) for s in ms.solve()]
                        cnt("multiprocessing_runs")
                        if collections.Counter(msols) != collections.Counter(sols):
                            fail("multiprocessing_count_differs", "%s: %d solutions with %d processes, %d sequentially"
                                 % (inst["name"], len(msols), k, len(sols)), inst, ci)
                        for t in msols:
                            w = validator(t)
                            if w:
                                fail("invalid_object", "%s (multiprocessing): %s" % (inst["name"], w), inst, ci)
                                break
                else:
                    s = BacktrackSolver(problem, log_level="ERROR", **kw)
                    obj = inst["objective"](problem)
                    r = s.minimize(obj) if inst["kind"] == "min" else s.maximize(obj)
                    cnt("optimisations")
                    if r is None:
                        fail("no_optimum_returned", "%s: None returned, reference optimum %r" % (
                            inst["name"], inst["optimum"]), inst, ci)
                    else:
                        t = tuple(int(x) for x in r)
                        res["nontrivial"].append(h)
                        cnt("solutions_validated")
                        cnt("solutions_validated." + fam)
                        w = validator(t)
                        if w:
                            fail("invalid_object", "%s: optimum %r: %s" % (inst["name"], list(t)[:40], w), inst, ci)
                        cnt("optima_compared")
                        if t[obj] != inst["optimum"]:
                            fail("optimum_differs_from_reference", "%s: objective %d, reference %d" % (
                                inst["name"], t[obj], inst["optimum"]), inst, ci)
                        if len(res["samples"]) < 5 and ci == 0:
                            res["samples"].append({"instance": inst["name"], "objective": t[obj],
                                                   "reference_optimum": inst["optimum"]})
            except Exception as e:
                fail("raised:" + type(e).__name__, "%s: %s" % (inst["name"], str(e)[:200]), inst, ci)
        # all configurations agree
        full = [x for x in sym_sets if x is not None]
        if len(full) >= 2 and any(x != full[0] for x in full[1:]):
            fail("configurations_disagree", "%s: solution sets differ between configurations (sizes %r)" % (
                inst["name"], [len(x) for x in full]), inst, -1)
        # symmetry breaking: valid, sat-preserving, subset
        if inst.get("make_nosym") and inst["kind"] == "enum":
            progress.mark({"instance": inst["name"], "nosym": True})
            validator = inst["validator"]
            lim = inst.get("nosym_limit")
            nos, bad = solve_all(inst["make_nosym"](), inst["cfgs"][0], validator, lim)
            res["evals"] += 1
            cnt("symmetry_pairs_compared")
            cnt("solutions_validated", len(nos))
            if bad:
                fail("invalid_object", "%s without symmetry breaking: %s" % (inst["name"], bad[1]), inst, 0)
            if full:
                if bool(full[0]) != bool(nos):
                    fail("symmetry_breaking_changes_satisfiability", "%s: %d with, %d without" % (
                        inst["name"], len(full[0]), len(nos)), inst, 0)
                if lim is None and not full[0] <= set(nos):
                    fail("symmetry_breaking_invents_solutions", "%s: a solution of the symmetric model is not a "
                                                                "solution of the plain one" % inst["name"], inst, 0)
            if inst.get("images") and full and lim is None:
                # the plain model must deliver *every* valid object: each symmetric image of a delivered solution that the
                # definition-level validator accepts has to be among its solutions
                have = set(nos)
                checked = 0
                for sol in sorted(set(full[0]) | set(nos[:3])):
                    for im in inst["images"](sol):
                        if len(im) != len(sol) or validator(im):
                            continue
                        checked += 1
                        if im not in have:
                            fail("valid_object_missing_without_symmetry_breaking",
                                 "%s: %r is a valid object (symmetric image of a delivered solution, accepted by the "
                                 "validator) but the model without symmetry breaking does not deliver it (%d solutions)"
                                 % (inst["name"], list(im[:49]), len(nos)), inst, 0)
                            break
                    else:
                        continue
                    break
                cnt("symmetric_images_checked", checked)
            ref = inst.get("count_nosym")
            if ref == "schur":
                ref = S.schur_count(int(inst["name"].split("-")[1]))
            if ref is not None and lim is None:
                cnt("counts_compared")
                if len(nos) != ref:
                    fail("count_differs_from_reference", "%s without symmetry breaking: %d solutions, own enumeration "
                                                         "%d" % (inst["name"], len(nos), ref), inst, 0)
        # completeness at definition level: a valid object (symmetric image of a delivered solution, accepted by the
        # validator) presented ground must be accepted by the model without symmetry breaking (or the model itself when it
        # has no such flag)
        pim = inst.get("prefix_images") or inst.get("images")
        if pim and full and inst["kind"] == "enum":
            plain = inst.get("make_nosym") or (inst["make"] if inst.get("images_apply_to_model") else None)
            srcs = sorted(full[0])[:3]
            tried = 0
            for sol in (srcs if plain else []):
                for im in pim(sol):
                    if tried >= 40:
                        break
                    progress.mark({"instance": inst["name"], "ground_acceptance": list(im[:60])})
                    pb = plain()
                    ok = True
                    fixed = {}
                    for vi, val in enumerate(im):
                        d, o = pb.dom_indices_lst[vi], pb.dom_offsets_lst[vi]
                        if fixed.setdefault(d, val - o) != val - o:
                            ok = False
                            break
                    if not ok:
                        cnt("ground_acceptance.image_not_representable")
                        continue
                    lo_hi_ok = all(pb.shr_domains_lst[d][0] <= x <= pb.shr_domains_lst[d][1] for d, x in fixed.items())
                    for d, x in fixed.items():
                        pb.shr_domains_lst[d] = [x, x]
                    got, bad2 = solve_all(pb, inst["cfgs"][0], inst["validator"], 2)
                    tried += 1
                    res["evals"] += 1
                    if bad2:
                        fail("invalid_object", "%s with the first %d variables fixed: %s" % (inst["name"], len(im), bad2[1]),
                             inst, 0)
                    valid = bool(got) and not bad2
                    if not got:
                        # nothing delivered: a violation only if the image really is a valid object - decided by the
                        # validator on a completion we can build ourselves (full images), else by the family's prefix rule
                        if len(im) == len(sol) and inst["validator"](im) is None and lo_hi_ok:
                            fail("valid_object_rejected", "%s: the valid object %r presented ground is rejected by the "
                                 "model without symmetry breaking" % (inst["name"], list(im[:60])), inst, 0)
                        elif len(im) < len(sol) and inst.get("prefix_valid") and inst["prefix_valid"](im) and lo_hi_ok:
                            fail("valid_object_rejected", "%s: the valid object %r (first %d variables) presented ground is "
                                 "rejected by the model without symmetry breaking" % (inst["name"], list(im[:60]), len(im)),
                                 inst, 0)
                        else:
                            cnt("ground_acceptance.image_not_valid")
                            continue
                    cnt("ground_acceptance.objects_presented")
                    if valid and tuple(got[0][:len(im)]) != tuple(im):
                        fail("ground_object_changed", "%s: fixed %r, delivered %r" % (inst["name"], list(im[:40]),
                                                                                      list(got[0][:40])), inst, 0)
    res["wall"] = time.time() - t0
    return res


def replay_shipped(task):
    """Re-runs the recorded instance (all its configurations) through the validators."""
    import framework.props.shippedrun as me

    name = task["witness"]["instance"]
    saved = me.instances
    me.instances = lambda tier: [x for x in saved("thorough") if x["name"] == name]
    try:
        r = run_shipped({"tier": "thorough", "chunk": 0, "nchunks": 1})
    finally:
        me.instances = saved
    return {"fails": r["fails"]}


def replay_stalled(task):
    """Watchdog protocol for a shipped instance a compiled child stalled on: the same instance and configuration on
    plane A under the pass-level invariants of C08 (a consistency algorithm may only shrink domains) and a pass budget;
    a domain that grows across a pass explains a search that never ends."""
    import framework.props.shippedrun as me
    from framework.planes import interp
    from framework import monitors2 as MON2
    from framework.planes.linebudget import BudgetExceeded
    from nucs.solvers.backtrack_solver import BacktrackSolver

    name, ci = task["instance"], task["config_index"]
    inst = [x for x in me.instances("thorough") if x["name"] == name][0]
    kw = inst["cfgs"][ci]
    hub = interp.install()
    hub.off_all()
    interp.patch_late_modules()
    interp.rewrap_registries()
    fx = MON2.Fixpoint(hub, {"doms": [], "idx": [], "off": [], "props": []}, {"ofix": False})
    passes = [0]

    def count(idx, args, inner):
        passes[0] += 1
        if passes[0] > task.get("max_passes", 30000):
            raise BudgetExceeded("propagation passes in the replay of a stalled shipped instance", passes[0],
                                 task.get("max_passes", 30000))

    hub.on("alg_enter", count)
    problem = inst["make"]()
    s = BacktrackSolver(problem, log_level="ERROR", **kw)
    outcome = "completed"
    try:
        if inst["kind"] == "enum":
            for _ in s.solve():
                pass
        else:
            obj = inst["objective"](problem)
            s.minimize(obj) if inst["kind"] == "min" else s.maximize(obj)
    except BudgetExceeded as e:
        outcome = "budget: " + str(e)
    except Exception as e:
        outcome = "raised %s: %s" % (type(e).__name__, str(e)[:100])
    hub.off_all()
    return {"fails": fx.fails[:5], "outcome": outcome, "passes": passes[0], "counts": fx.counts}

"""Plane-B workload: random models solved in compiled mode with the in-engine probes as consistency algorithms."""
import collections
import os
import random
import time

from framework import gen, progress
from framework import oracles as O
from framework.common import case_hash

MODE = os.environ.get("NUCS_VERIF_MODE", "jit")


def run_probe(task):
    from framework import nucsmap as M
    from framework.planes import probe

    t0 = time.time()
    rnd = random.Random(task["seed"])
    idx = probe.register()
    res = {"evals": 0, "fails": [], "fail_counts": {}, "hashes": [], "nontrivial": [], "samples": [], "counters": {},
           "mode": MODE}
    deadline = t0 + task.get("deadline_s", 1e9)
    gopts = {"circuit": 0.15, "gcc_zero_cap": False}
    gopts.update(task.get("gen") or {})

    def cnt(k, n=1):
        res["counters"][k] = res["counters"].get(k, 0) + n

    def fail(prop, kind, detail, model, cfg, **kw):
        key = "%s|%s" % (prop, kind)
        c = res["fail_counts"].get(key, 0)
        res["fail_counts"][key] = c + 1
        if c < 4:
            res["fails"].append(dict(kw, prop=prop, kind=kind, detail=detail, model=model, cfg=cfg, mode=MODE,
                                     plane="B"))

    fixed = task.get("fixed_models") or []
    for it in range(task["count"]):
        if time.time() > deadline:
            res["truncated"] = True
            break
        if it < len(fixed):
            model = fixed[it]
        else:
            model, tags = gen.gen_model(rnd, gopts)
        if O.model_points(model) > task.get("max_points", 6000):
            continue
        cfg = gen.gen_config(rnd, model)
        if it < len(fixed):
            cfg = {"calg": "bc", "vh": "first", "dh": "min"}
        which = "shaving" if cfg["calg"] == "shaving" else "bc"
        progress.mark({"model": model, "cfg": cfg, "probe": which})
        s = M.build_solver(model, dict(cfg, calg=idx[which]))
        probe.arm(s)
        sols = collections.Counter()
        try:
            for sol in s.solve():
                sols[M.tup(sol)] += 1
                if sum(sols.values()) > 20000:
                    break
        except Exception as e:
            fail("C08", "probe_run_raised:" + type(e).__name__, str(e)[:200], model, cfg)
            continue
        r = probe.read(s)
        res["evals"] += 1
        for k, v in r.items():
            cnt("probe." + k, v)
        h = case_hash([model, cfg])
        res["hashes"].append(h)
        if r["bc_passes_monitored"] + r["shaving_calls_monitored"] >= 2:
            res["nontrivial"].append(h)
        exp = collections.Counter(O.brute(model))
        if sols != exp:
            fail("C08" if which == "bc" else "C10", "solutions_differ_under_probe",
                 "%d solutions with the probe, %d by brute force" % (sum(sols.values()), sum(exp.values())), model, cfg)
        for key, prop in (("domain_grew", "C08"), ("empty_domain_after_consistent_pass", "C08"),
                          ("stack_pointer_changed", "C08"), ("reexecution_fails", "C08"), ("not_a_fixpoint", "C08"),
                          ("shaving_domain_grew", "C10"), ("shaving_empty_domain", "C10"),
                          ("shaving_stack_pointer_changed", "C10")):
            if r[key]:
                fail(prop, "compiled_" + key, "in-engine probe (compiled mode) counted %d occurrence(s) in %d passes" % (
                    r[key], r["bc_passes_monitored"] + r["shaving_calls_monitored"]), model, cfg)
        if r["not_a_fixpoint_affine_eq_still_queued"]:
            # at the end of a consistent pass every queue bit is clear except possibly the propagator that ran last
            fail("C08", "not_a_fixpoint", "in-engine probe (compiled mode): affine_eq still prunes after %d pass(es) with "
                 "its queue bit set" % r["not_a_fixpoint_affine_eq_still_queued"], model, cfg,
                 constraint="affine_eq", queued=True, last=True)
        if r["not_a_fixpoint_affine_eq_not_queued"]:
            fail("C08", "not_a_fixpoint", "in-engine probe (compiled mode): affine_eq still prunes after %d pass(es) with "
                 "its queue bit clear" % r["not_a_fixpoint_affine_eq_not_queued"], model, cfg,
                 constraint="affine_eq", queued=False, last=False, affine_eq_only=(r["not_a_fixpoint"] == 0))
        if r["reexecution_fails_affine_eq_not_queued"]:
            fail("C08", "not_a_fixpoint", "in-engine probe (compiled mode): affine_eq fails when re-executed after %d "
                 "pass(es) with its queue bit clear" % r["reexecution_fails_affine_eq_not_queued"], model, cfg,
                 constraint="affine_eq", queued=False, last=False, affine_eq_only=True)
        if len(res["samples"]) < 2 and r["reexecutions"] > 20:
            res["samples"].append({"model": model, "cfg": cfg, "probe_counters": r})
    res["wall"] = time.time() - t0
    return res


def aggregate(rep, jobs):
    for j in jobs:
        if j.status != "ok":
            rep.job_problem(j)
            if not j.result:
                continue
        r = j.result
        rep.evaluations += r["evals"]
        for k, v in r["counters"].items():
            rep.count(k, v)
        if isinstance(rep.distinct, set):
            rep.distinct.update("B" + h for h in r["nontrivial"])
        for s in r["samples"][:1]:
            rep.sample(s)
        for f in r["fails"]:
            if f["prop"] == rep.prop:
                rep.violation(f)
        rep.add_class("stream:plane_B_probe:" + r["mode"], r["evals"])

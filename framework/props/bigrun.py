"""Large-model workload (compiled mode, plane B probes as consistency algorithms with a logical pass budget).

The brute-force oracles stop at a few thousand points; this stream goes past them with oracles that do not enumerate:
models of 8-24 variables with domains up to 16 values and constraints of arity up to 12 are built *around a planted
assignment* (every constraint satisfied by construction, auxiliary variables added for functional constraints), so that

  C01  every delivered solution is checked by O-sem (linear in the model);
  C02  the model is satisfiable by construction: a completed run that delivers nothing lost the planted solution
       (run on the model with a random subset of variables fixed to their planted value, which keeps the search small
       while the constraints stay large);
  C03  a completed minimisation/maximisation returns a valid solution at least as good as the planted one;
  C06  with every variable fixed to the planted value the engine must deliver exactly that point; with one variable moved so
       that some constraint is violated it must deliver nothing;
  C17  the conservation laws of the statistics hold on every run, the exhaustive-enumeration identities on completed ones;
  C08  the in-engine probe re-executes every enabled constraint after every compiled pass (shrink / non-empty / fixpoint).

Runs are bounded logically: after `pass_limit` passes the probe makes every pass fail and the search unwinds; such a run
only counts for what it delivered before the cut.
"""
import os
import random
import time

from framework import progress
from framework import oracles as O
from framework.common import case_hash

MODE = os.environ.get("NUCS_VERIF_MODE", "jit")


# ------------------------------------------------------------------------------------------------- generator
class _B:
    def __init__(self, rnd, o):
        self.rnd, self.o = rnd, o
        self.doms, self.idx, self.off, self.plant_shared = [], [], [], []
        self.props = []

    def new_var(self, lo, hi, value):
        assert lo <= value <= hi
        self.doms.append([lo, hi])
        self.plant_shared.append(value)
        self.idx.append(len(self.doms) - 1)
        self.off.append(0)
        return len(self.idx) - 1

    def alias(self, d, off):
        self.idx.append(d)
        self.off.append(off)
        return len(self.idx) - 1

    def val(self, v):
        return self.plant_shared[self.idx[v]] + self.off[v]

    def vdom(self, v):
        a, b = self.doms[self.idx[v]]
        return [a + self.off[v], b + self.off[v]]

    def aux(self, value, slack=2):
        """A fresh variable whose domain contains `value`."""
        r = self.rnd
        return self.new_var(value - r.randint(0, slack), value + r.randint(0, slack), value)

    def pick(self, k, distinct_domains=True, pred=None):
        pool = [v for v in range(len(self.idx)) if pred is None or pred(v)]
        self.rnd.shuffle(pool)
        out, used = [], set()
        for v in pool:
            if distinct_domains and self.idx[v] in used:
                continue
            used.add(self.idx[v])
            out.append(v)
            if len(out) == k:
                break
        return out


def gen_big(rnd, opts=None):
    """Returns (model, plant) - plant[v] is the planted value of variable v; every constraint holds on it."""
    o = {"min_vars": 8, "max_vars": 20, "max_width": 12, "max_arity": 10, "max_props": 9, "min_props": 3,
         "circuit": 0.25, "types": None}
    o.update(opts or {})
    b = _B(rnd, o)
    n = rnd.randint(o["min_vars"], o["max_vars"])
    nbool = rnd.randint(0, n // 3)
    for k in range(n):
        if k < nbool:
            b.new_var(0, 1, rnd.randint(0, 1))
        else:
            lo = rnd.randint(-6, 6)
            w = rnd.choice([1, 2, 3, 4, 6, 8, o["max_width"]])
            b.new_var(lo, lo + w, rnd.randint(lo, lo + w))
    for _ in range(rnd.randint(0, 4)):
        b.alias(rnd.randrange(len(b.doms)), rnd.randint(-3, 3))
    types = o["types"] or ["affine_eq", "affine_leq", "affine_geq", "alldifferent", "count_eq", "exactly_eq", "exactly_true",
                           "and", "max_eq", "min_eq", "max_leq", "min_geq", "element_iv", "element_liv", "element_lic",
                           "lexicographic_leq", "gcc", "relation", "affine_leq", "affine_geq", "alldifferent"]
    nprops = rnd.randint(o["min_props"], o["max_props"])
    tries = 0
    while len(b.props) < nprops and tries < 60:
        tries += 1
        name = rnd.choice(types)
        k = rnd.randint(2, o["max_arity"])
        c = _make(b, rnd, name, k)
        if c is not None:
            vs, nm, p = c
            assert O.SEM[nm](tuple(b.val(v) for v in vs), p), (nm, vs, p)
            b.props.append([vs, nm, p])
    if rnd.random() < o["circuit"]:
        m = rnd.randint(5, 12)
        perm = list(range(1, m))
        rnd.shuffle(perm)
        order = [0] + perm  # Hamiltonian cycle 0 -> order[1] -> ... -> 0
        succ = [0] * m
        for i in range(m):
            succ[order[i]] = order[(i + 1) % m]
        vs = [b.new_var(0, m - 1, succ[i]) for i in range(m)]
        b.props.append([vs, "alldifferent", []])
        b.props.append([vs, "no_sub_cycle", []])
        if rnd.random() < 0.5:
            b.props.append([vs, "scc", []])
    rnd.shuffle(b.props)
    model = {"doms": b.doms, "idx": b.idx, "off": b.off, "props": b.props}
    plant = [b.val(v) for v in range(len(b.idx))]
    if rnd.random() < 0.4:
        nv = len(b.idx)
        pv = list(range(nv))
        rnd.shuffle(pv)
        inv = {old: new for new, old in enumerate(pv)}
        model = {"doms": b.doms, "idx": [b.idx[pv[k]] for k in range(nv)], "off": [b.off[pv[k]] for k in range(nv)],
                 "props": [[[inv[v] for v in vs], nm, p] for vs, nm, p in b.props]}
        plant = [plant[pv[k]] for k in range(nv)]
    assert O.check_solution(model, plant) is None
    return model, plant


def _make(b, rnd, name, k):
    if name in ("affine_eq", "affine_leq", "affine_geq"):
        vs = b.pick(k)
        if len(vs) < 1:
            return None
        a = [rnd.choice([-3, -2, -1, 1, 1, 2, 3, 0]) for _ in vs]
        if all(x == 0 for x in a):
            a[0] = 1
        s = sum(ai * b.val(v) for ai, v in zip(a, vs))
        if name == "affine_leq":
            s += rnd.randint(0, 3)
        elif name == "affine_geq":
            s -= rnd.randint(0, 3)
        return vs, name, a + [s]
    if name == "alldifferent":
        vs, seen = [], set()
        for v in b.pick(len(b.idx)):
            if b.val(v) not in seen:
                seen.add(b.val(v))
                vs.append(v)
            if len(vs) == k:
                break
        return (vs, name, []) if len(vs) >= 2 else None
    if name == "count_eq":
        xs = b.pick(k)
        if not xs:
            return None
        v = b.val(rnd.choice(xs)) if rnd.random() < 0.7 else rnd.randint(-6, 10)
        c = sum(1 for x in xs if b.val(x) == v)
        return xs + [b.new_var(max(0, c - rnd.randint(0, 2)), c + rnd.randint(0, 2), c)], name, [v]
    if name == "exactly_eq":
        xs = b.pick(k)
        if not xs:
            return None
        v = b.val(rnd.choice(xs)) if rnd.random() < 0.7 else rnd.randint(-6, 10)
        return xs, name, [v, sum(1 for x in xs if b.val(x) == v)]
    if name in ("exactly_true", "and"):
        xs = b.pick(k, pred=lambda v: b.vdom(v)[0] >= 0 and b.vdom(v)[1] <= 1)
        if len(xs) < 2:
            return None
        if name == "exactly_true":
            return xs, name, [sum(1 for x in xs if b.val(x) == 1)]
        r = int(all(b.val(x) == 1 for x in xs))
        return xs + [b.new_var(0, 1, r)], name, []
    if name in ("max_eq", "min_eq"):
        xs = b.pick(k)
        if not xs:
            return None
        m = (max if name == "max_eq" else min)(b.val(x) for x in xs)
        return xs + [b.aux(m, 3)], name, []
    if name in ("max_leq", "min_geq"):
        xs = b.pick(k)
        if not xs:
            return None
        if name == "max_leq":
            m = max(b.val(x) for x in xs) + rnd.randint(0, 2)
        else:
            m = min(b.val(x) for x in xs) - rnd.randint(0, 2)
        return xs + [b.aux(m, 3)], name, []
    if name == "element_iv":
        ln = rnd.randint(2, 12)
        l = [rnd.randint(-5, 9) for _ in range(ln)]
        i = rnd.randrange(ln)
        iv = b.new_var(-rnd.randint(0, 2), ln - 1 + rnd.randint(0, 2), i)
        return [iv, b.aux(l[i], 4)], name, l
    if name in ("element_liv", "element_lic"):
        xs = b.pick(k)
        if not xs:
            return None
        i = rnd.randrange(len(xs))
        iv = b.new_var(-rnd.randint(0, 2), len(xs) - 1 + rnd.randint(0, 2), i)
        if name == "element_liv":
            return xs + [iv, b.aux(b.val(xs[i]), 3)], name, []
        return xs + [iv], name, [b.val(xs[i])]
    if name == "lexicographic_leq":
        k2 = max(1, k // 2)
        vs = b.pick(2 * k2)
        if len(vs) < 2:
            return None
        k2 = len(vs) // 2
        x, y = vs[:k2], vs[k2:2 * k2]
        if tuple(b.val(v) for v in x) > tuple(b.val(v) for v in y):
            x, y = y, x
        return x + y, name, []
    if name == "gcc":
        xs = b.pick(k)
        if not xs:
            return None
        lo = min(b.vdom(x)[0] for x in xs)
        hi = max(b.vdom(x)[1] for x in xs)
        if hi - lo > 24:
            return None
        v0 = lo - rnd.randint(0, 1)
        m = hi - v0 + 1 + rnd.randint(0, 1)
        cnt = [sum(1 for x in xs if b.val(x) == v0 + j) for j in range(m)]
        lows = [max(0, c - rnd.randint(0, 2)) if rnd.random() < 0.5 else 0 for c in cnt]
        ups = [max(1, c + rnd.randint(0, 2)) for c in cnt]
        return xs, name, [v0] + lows + ups
    if name == "relation":
        xs = b.pick(min(k, 5))
        if not xs:
            return None
        tl = []
        t = rnd.randint(1, 8)
        pos = rnd.randrange(t)
        for j in range(t):
            if j == pos:
                tl.extend(b.val(x) for x in xs)
            else:
                tl.extend(rnd.randint(b.vdom(x)[0] - 1, b.vdom(x)[1] + 1) for x in xs)
        return xs, name, tl
    return None


def gen_circuit_focus(rnd):
    """A circuit of 6-11 vertices (alldifferent + no_sub_cycle [+ scc]) with a planted Hamiltonian cycle, part of the successors
    fixed (paths exist from the start) and a few side constraints on the successor variables that move bounds without
    instantiating anything - the sub-cycle constraint removes values that sit at a bound, so it depends on those moves."""
    b = _B(rnd, {})
    m = rnd.randint(6, 11)
    perm = list(range(1, m))
    rnd.shuffle(perm)
    order = [0] + perm
    succ = [0] * m
    for i in range(m):
        succ[order[i]] = order[(i + 1) % m]
    style = rnd.choice(["wide", "wide", "narrow", "pairs"])
    if style == "pairs":
        # two-value windows [v, v+1]: Hall pairs for alldifferent, and removing one value instantiates the successor
        vs = []
        for i in range(m):
            lo = succ[i] - rnd.randint(0, 1)
            lo = max(0, min(m - 2, lo))
            vs.append(b.new_var(lo, lo + 1, succ[i]))
    elif style == "narrow":
        vs = [b.new_var(max(0, succ[i] - rnd.randint(0, 2)), min(m - 1, succ[i] + rnd.randint(0, 2)), succ[i])
              for i in range(m)]
    else:
        vs = [b.new_var(0, m - 1, succ[i]) for i in range(m)]
    b.props.append([vs, "alldifferent", []])
    b.props.append([vs, "no_sub_cycle", []])
    if rnd.random() < 0.4:
        b.props.append([vs, "scc", []])
    for _ in range(rnd.randint(0, 3)):
        k = rnd.randint(2, 3)
        xs = rnd.sample(vs, k)
        name = rnd.choice(["affine_leq", "affine_geq", "max_leq", "min_geq", "affine_leq", "affine_geq"])
        if name.startswith("affine"):
            a = [rnd.choice([-2, -1, 1, 1, 2]) for _ in xs]
            sm = sum(ai * b.val(v) for ai, v in zip(a, xs))
            b.props.append([xs, name, a + [sm + (rnd.randint(0, 2) if name == "affine_leq" else -rnd.randint(0, 2))]])
        elif name == "max_leq":
            b.props.append([xs + [b.aux(max(b.val(x) for x in xs) + rnd.randint(0, 1), 2)], name, []])
        else:
            b.props.append([xs + [b.aux(min(b.val(x) for x in xs) - rnd.randint(0, 1), 2)], name, []])
    rnd.shuffle(b.props)
    model = {"doms": b.doms, "idx": b.idx, "off": b.off, "props": b.props}
    plant = [b.val(v) for v in range(len(b.idx))]
    doms = [list(d) for d in model["doms"]]
    for v in rnd.sample(vs, rnd.randint(m // 3, (2 * m) // 3) if style == "wide" else rnd.randint(0, m // 2)):
        doms[model["idx"][v]] = [plant[v], plant[v]]
    model = dict(model, doms=doms)
    assert O.check_solution(model, plant) is None
    return model, plant


def pad_model(model, plant, rnd, npad=None):
    """The same model behind `npad` instantiated variables with their own shared domains: every index that matters (shared
    domains, variables) lies beyond the range of an 8-bit integer. Returns (model, plant)."""
    npad = npad if npad is not None else rnd.randint(250, 300)
    vals = [rnd.randint(-5, 5) for _ in range(npad)]
    return ({"doms": [[v, v] for v in vals] + [list(d) for d in model["doms"]],
             "idx": list(range(npad)) + [d + npad for d in model["idx"]], "off": [0] * npad + list(model["off"]),
             "props": [[[v + npad for v in vs], name, list(p)] for vs, name, p in model["props"]]},
            vals + list(plant))


def restrict(model, plant, rnd, keep_free):
    """The model with every shared domain fixed to its planted value except `keep_free` randomly chosen ones."""
    D = len(model["doms"])
    shared = [None] * D
    for v, (d, o) in enumerate(zip(model["idx"], model["off"])):
        shared[d] = plant[v] - o
    open_ = [d for d in range(D) if model["doms"][d][0] < model["doms"][d][1]]
    free = set(rnd.sample(open_, min(keep_free, len(open_))))
    doms = [list(model["doms"][d]) if d in free or shared[d] is None else [shared[d], shared[d]] for d in range(D)]
    return dict(model, doms=doms)


# ------------------------------------------------------------------------------------------------- workload
CFG_VH = ["first", "smallest", "greatest"]
CFG_DH = ["min", "max", "mid", "split_low"]


PROBE_KEYS = (("domain_grew", "C08"), ("empty_domain_after_consistent_pass", "C08"), ("stack_pointer_changed", "C08"),
              ("reexecution_fails", "C08"), ("not_a_fixpoint", "C08"), ("shaving_domain_grew", "C10"),
              ("shaving_empty_domain", "C10"), ("shaving_stack_pointer_changed", "C10"))


def check_op(model, cfg, op, planted, limit, objective=None, sense=None, max_sols=30, cnt=None):
    """One operation of the real engine on `model` under the probes, judged. op: full | partial | optimise |
    ground_sat | ground_viol. Returns (fails, cut, delivered)."""
    from framework import nucsmap as M
    from framework.planes import probe

    cnt = cnt or (lambda k, n=1: None)
    idx = probe.register()
    fails = []

    def fail(prop, kind, detail, **kw):
        fails.append(dict(kw, prop=prop, kind=kind, detail=detail, model=model, cfg=cfg, mode=MODE, plane="B",
                          stream="big", op=op, planted=planted, objective=objective, sense=sense, pass_limit=limit,
                          max_sols=max_sols))

    which = "shaving" if cfg["calg"] == "shaving" else "bc"
    progress.mark({"model": model, "cfg": cfg, "op": op, "stream": "big"})
    s = M.build_solver(model, dict(cfg, calg=idx[which]))
    probe.arm(s, limit)
    sols, best = [], None
    if op == "optimise":
        r = s.minimize(objective) if sense == "min" else s.maximize(objective)
        best = None if r is None else M.tup(r)
    else:
        for sol in s.solve():
            sols.append(M.tup(sol))
            if len(sols) >= max_sols:
                break
    r = probe.read(s)
    cut = r["passes_cut_off"] > 0
    for k, v in r.items():
        if k != "pass_limit":
            cnt("probe." + k, v)
    passes = r["bc_passes_monitored"] + r["shaving_calls_monitored"]
    for key, prop in PROBE_KEYS:
        if r[key]:
            fail(prop, "compiled_" + key, "in-engine probe (compiled mode, large model) counted %d occurrence(s) in %d "
                 "passes during %s" % (r[key], passes, op))
    if r["not_a_fixpoint_affine_eq_still_queued"]:
        fail("C08", "not_a_fixpoint", "in-engine probe (compiled mode, large model): affine_eq still prunes after %d "
             "pass(es) with its queue bit set" % r["not_a_fixpoint_affine_eq_still_queued"],
             constraint="affine_eq", queued=True, last=True)
    if r["not_a_fixpoint_affine_eq_not_queued"]:
        fail("C08", "not_a_fixpoint", "in-engine probe (compiled mode, large model): affine_eq still prunes after %d "
             "pass(es) with its queue bit clear" % r["not_a_fixpoint_affine_eq_not_queued"],
             constraint="affine_eq", queued=False, last=False, affine_eq_only=(r["not_a_fixpoint"] == 0))
    if r["reexecution_fails_affine_eq_not_queued"]:
        fail("C08", "not_a_fixpoint", "in-engine probe (compiled mode, large model): affine_eq fails when re-executed after "
             "%d pass(es) with its queue bit clear" % r["reexecution_fails_affine_eq_not_queued"],
             constraint="affine_eq", queued=False, last=False, affine_eq_only=True)
    for sol in sols + ([best] if best is not None else []):
        cnt("big.solutions_checked_against_O-sem")
        why = O.check_solution(model, list(sol))
        if why:
            fail("C01", "invalid_solution", "%s delivered %r: %s" % (op, list(sol), why))
            fail("C02", "extra", "%s delivered %r which is not a solution: %s" % (op, list(sol), why))
            break
    if len(set(sols)) != len(sols):
        fail("C02", "duplicate_solution", "a solution was delivered twice among the first %d" % len(sols))
    complete = not cut and len(sols) < max_sols
    if op != "optimise":
        from framework.props.models import stats_laws

        st = [int(x) for x in s.statistics[:13]]
        law = stats_laws(st, cfg, complete, len(sols))
        cnt("big.statistics_vectors_checked")
        if law:
            fail("C17", "conservation_law", "%s on a large model (%s, %s): %s; statistics %r" % (
                op, "complete" if complete else "stopped early", cfg, law, st))
    if op in ("full", "partial") and complete:
        cnt("big.enumerations_completed")
        if tuple(planted) not in set(sols):
            fail("C02", "planted_solution_missed", "complete enumeration of %d solution(s) without the planted assignment "
                 "%r, which satisfies every constraint" % (len(sols), planted))
            if cfg["calg"] == "shaving":
                fail("C10", "shaving_lost_a_solution", "complete enumeration with shaving: %d solution(s), the planted "
                     "assignment %r (satisfies every constraint) is not among them" % (len(sols), planted))
    if op == "optimise" and not cut:
        cnt("big.optimisations_completed")
        if best is None:
            fail("C03", "no_optimum_although_satisfiable", "%simize(%d) returned None but %r is a solution" % (
                sense, objective, planted))
        elif (best[objective] > planted[objective]) if sense == "min" else (best[objective] < planted[objective]):
            fail("C03", "not_optimal", "%simize(%d) returned value %d but the planted solution %r has %d" % (
                sense, objective, best[objective], planted, planted[objective]))
    if op == "ground_sat" and not cut and sols != [tuple(planted)]:
        fail("C06", "ground_satisfying_rejected" if not sols else "ground_point_changed",
             "all variables fixed to %r (satisfies every constraint) but the engine delivered %r" % (planted, sols))
    if op == "ground_viol" and sols:
        vals = [model["doms"][d][0] + o for d, o in zip(model["idx"], model["off"])]
        fail("C06", "ground_violation_accepted", "all variables fixed to %r: %s - but the engine delivered it as a "
             "solution" % (vals, O.check_solution(model, vals)))
    return fails, cut, (best if op == "optimise" else sols)


def run_big(task):
    t0 = time.time()
    rnd = random.Random(task["seed"])
    res = {"evals": 0, "fails": [], "fail_counts": {}, "hashes": [], "nontrivial": [], "samples": [], "counters": {},
           "mode": MODE}
    deadline = t0 + task.get("deadline_s", 1e9)
    limit = task.get("pass_limit", 4000)

    def cnt(k, n=1):
        res["counters"][k] = res["counters"].get(k, 0) + n

    def maxc(k, v):
        res["counters"][k] = max(res["counters"].get(k, 0), v)

    def keep(fails):
        for f in fails:
            key = "%s|%s" % (f["prop"], f["kind"])
            c = res["fail_counts"].get(key, 0)
            res["fail_counts"][key] = c + 1
            if c < 3:
                res["fails"].append(f)

    for it in range(task["count"]):
        if time.time() > deadline:
            res["truncated"] = True
            break
        model, plant = gen_big(rnd, task.get("gen"))
        circuit = it % 4 == 3
        if circuit:
            # circuits of 6-11 vertices with side constraints: up to 400 solutions per run, each one validated
            model, plant = gen_circuit_focus(rnd)
            cnt("big.circuit_models")
        if it % 3 == 1:
            model, plant = pad_model(model, plant, rnd)
            cnt("big.models_behind_250+_instantiated_variables")
        cfg = {"calg": task.get("calg") or rnd.choice(["bc", "bc", "bc", "shaving"]), "vh": rnd.choice(CFG_VH),
               "dh": rnd.choice(CFG_DH)}
        h = case_hash([model, cfg])
        res["hashes"].append(h)
        res["evals"] += 1
        maxc("big.max_variables", len(model["idx"]))
        maxc("big.max_arity", max(len(c[0]) for c in model["props"]))
        maxc("big.max_domain_size", max(bb - a + 1 for a, bb in model["doms"]))
        for c in model["props"]:
            cnt("big.constraints.%s" % c[1])
            if len(c[0]) >= 7:
                cnt("big.constraints_arity>=7")
        try:
            # (a) the full model: whatever is delivered must be a solution; a completed run must contain the planted one
            fails, cut, sols = check_op(model, cfg, "full", plant, limit, cnt=cnt, max_sols=400 if circuit else 30)
            keep(fails)
            cnt("big.runs_full")
            if cut:
                cnt("big.runs_cut_off_by_the_pass_budget")
            if sols:
                res["nontrivial"].append(h)
            # (b) partially fixed to the planted solution: small search, large constraints
            for rep in range(2):
                sub = restrict(model, plant, rnd, rnd.randint(2, 6))
                fails, cut, sols = check_op(sub, cfg, "partial", plant, limit, max_sols=300, cnt=cnt)
                keep(fails)
                cnt("big.runs_partial")
                if cut:
                    cnt("big.runs_cut_off_by_the_pass_budget")
                # (c) optimisation on the partially fixed model: valid and at least as good as the planted solution
                if rep == 0:
                    obj = rnd.randrange(len(sub["idx"]))
                    sense = rnd.choice(["min", "max"])
                    fails, cut, best = check_op(sub, cfg, "optimise", plant, limit, objective=obj, sense=sense, cnt=cnt)
                    keep(fails)
                    cnt("big.optimisations")
            # (d) all fixed: the point itself, and violating neighbours
            pt = restrict(model, plant, rnd, 0)
            fails, cut, sols = check_op(pt, cfg, "ground_sat", plant, limit, cnt=cnt)
            keep(fails)
            cnt("big.ground_satisfying_points")
            for _ in range(3):
                open_ = [k for k in range(len(model["doms"])) if model["doms"][k][0] < model["doms"][k][1]]
                if not open_:
                    break
                d = rnd.choice(open_)
                a, bb = model["doms"][d]
                cur = pt["doms"][d][0]
                nv = rnd.choice([x for x in range(a, bb + 1) if x != cur])
                doms = [list(x) for x in pt["doms"]]
                doms[d] = [nv, nv]
                bad = dict(pt, doms=doms)
                vals = [doms[dd][0] + oo for dd, oo in zip(bad["idx"], bad["off"])]
                if O.check_solution(bad, vals) is None:
                    cnt("big.ground_neighbour_also_satisfying")
                    continue
                fails, cut, sols = check_op(bad, cfg, "ground_viol", vals, limit, cnt=cnt)
                keep(fails)
                cnt("big.ground_violating_points")
        except Exception as e:
            keep([{"prop": task.get("exc_prop", "C01"), "kind": "big_run_raised:" + type(e).__name__,
                   "detail": str(e)[:300], "model": model, "cfg": cfg, "mode": MODE, "plane": "B", "stream": "big",
                   "op": "full", "planted": plant, "pass_limit": limit}])
            continue
        if len(res["samples"]) < 1:
            res["samples"].append({"model": model, "cfg": cfg, "planted": plant})
    res["wall"] = time.time() - t0
    return res


def replay_big(task):
    """Worker entry: replays one recorded large-model witness (same operation, same judge)."""
    w = task["witness"]
    fails, cut, out = check_op(w["model"], w["cfg"], w.get("op", "full"), w.get("planted"), w.get("pass_limit", 20000),
                               objective=w.get("objective"), sense=w.get("sense"),
                               max_sols=w.get("max_sols") or (300 if w.get("op") == "partial" else 30))
    return {"fails": [f for f in fails if f["prop"] == task["prop"]]}


EXACT_TYPES = ["affine_leq", "affine_geq", "alldifferent", "count_eq", "exactly_eq", "exactly_true", "and", "max_eq", "min_eq",
               "max_leq", "min_geq", "element_iv", "element_liv", "element_lic", "lexicographic_leq", "gcc", "relation"]


def run_big_interp(task):
    """Plane A on large planted models: the first solutions of the real interpreted engine under the monitors named in the
    task (fixpoint: shrink / re-execution / greatest common fixpoint through the support oracle; calls: every propagator
    execution judged against the exact hull). Partial enumerations only - the monitors judge passes and calls, not counts."""
    from framework import modelrun

    t0 = time.time()
    rnd = random.Random(task["seed"])
    want = set(task["props"])
    res = {"evals": 0, "fails": [], "fail_counts": {}, "hashes": [], "nontrivial": [], "samples": [], "counters": {},
           "mode": MODE}
    deadline = t0 + task.get("deadline_s", 1e9)
    hull_cache = {}

    def cnt(k, n=1):
        res["counters"][k] = res["counters"].get(k, 0) + n

    for it in range(task["count"]):
        if time.time() > deadline:
            res["truncated"] = True
            break
        exact = it % 2 == 0
        if task.get("circuits"):
            exact = False
            model, plant = gen_circuit_focus(rnd)
        else:
            model, plant = gen_big(rnd, dict(task.get("gen") or {}, types=EXACT_TYPES if exact else None,
                                             circuit=0.0 if exact else 0.25))
            if it % 3 == 2:
                model = restrict(model, plant, rnd, rnd.randint(4, 8))
            if it % 4 == 1:
                model, plant = pad_model(model, plant, rnd)
                cnt("big_interp.models_behind_250+_instantiated_variables")
        cfg = {"calg": task.get("calg") or rnd.choice(["bc", "bc", "shaving"]), "vh": rnd.choice(CFG_VH),
               "dh": rnd.choice(CFG_DH)}
        if task.get("circuits"):
            # which bound a decision moves decides everything here: walk through all heuristic pairs
            cfg = {"calg": "bc", "vh": CFG_VH[it % 3], "dh": CFG_DH[(it // 3) % 4]}
            if it % 12:
                model, plant = res["_last"]
            res["_last"] = (model, plant)
        spec = {}
        for m in task["monitors"]:
            spec[m] = dict((task.get("monitor_opts") or {}).get(m, {}))
        if "calls" in spec:
            spec["calls"]["cache"] = hull_cache
        if "budget" in spec:
            spec["budget"]["cut_after_passes"] = task.get("cut_after_passes", 400)
        progress.mark({"model": model, "cfg": cfg, "stream": "big_interp"})
        out = modelrun.run_enum(model, cfg, spec, stop_after=task.get("stop_after", 3))
        res["evals"] += 1
        h = case_hash([model, cfg])
        res["hashes"].append(h)
        if out.stats and out.stats[10] >= 1:
            res["nontrivial"].append(h)
        cnt("big_interp.runs")
        cnt("big_interp.runs_circuit_focus" if task.get("circuits") else (
            "big_interp.runs_exact_bc_models" if exact else "big_interp.runs_all_types"))
        for k, v in out.monitor_counts.items():
            if isinstance(v, (int, float)) and not k.endswith("_limit"):
                cnt(k, v)
        if out.error == "budget" and str(out.error_detail).startswith("cut-off"):
            cnt("big_interp.runs_cut_by_the_workload_cap")
        elif out.error == "budget":
            cnt("big_interp.step_budget_exceeded")
            if "C04" in want:
                res["fails"].append({"prop": "C04", "kind": "step_budget", "detail": out.error_detail, "model": model,
                                     "cfg": cfg, "mode": MODE, "stream": "big_interp"})
        elif out.error and out.error != "monitor":
            f = {"prop": sorted(want)[0], "kind": "big_run_failed:" + out.error, "detail": str(out.error_detail),
                 "model": model, "cfg": cfg, "mode": MODE, "stream": "big_interp"}
            res["fails"].append(f)
        for sol in out.solutions:
            why = O.check_solution(model, list(sol))
            if why and "C01" in want:
                res["fails"].append({"prop": "C01", "kind": "invalid_solution", "detail": why, "model": model, "cfg": cfg,
                                     "mode": MODE, "stream": "big_interp"})
        for f in out.monitor_fails:
            if f["prop"] not in want:
                continue
            key = "%s|%s" % (f["prop"], f["kind"])
            c = res["fail_counts"].get(key, 0)
            res["fail_counts"][key] = c + 1
            if c < 4:
                w = dict(f)
                if "call" in w:
                    w["in_model"], w["in_cfg"] = model, cfg
                else:
                    w["model"], w["cfg"] = model, cfg
                    w["stream"] = "big_interp"
                    w["monitors"] = task["monitors"]
                w["mode"] = MODE
                res["fails"].append(w)
        if not res["samples"]:
            res["samples"].append({"model": model, "cfg": cfg, "monitor_counts": {
                k: v for k, v in out.monitor_counts.items() if isinstance(v, int)}})
    res.pop("_last", None)
    res["wall"] = time.time() - t0
    return res


def replay_big_interp(task):
    from framework import modelrun

    w = task["witness"]
    spec = {m: {} for m in w.get("monitors", ["budget", "fixpoint"])}
    out = modelrun.run_enum(w["model"], w["cfg"], spec, stop_after=3)
    return {"fails": [f for f in out.monitor_fails if f["prop"] == task["prop"]]}


def interp_jobs(prop, tier, seed, monitors, n=None, monitor_opts=None, calg=None, circuits=0):
    from framework.common import Job

    q = tier == "quick"
    extra = [Job("framework.props.bigrun", "run_big_interp",
                 {"props": [prop], "seed": seed * 6173 + k * 17 + 3, "count": 4000 if q else 60000, "monitors": monitors,
                  "monitor_opts": monitor_opts or {}, "deadline_s": 50 if q else 900, "calg": calg, "circuits": True,
                  "stop_after": 15},
                 mode="interp", timeout=300 if q else 1800, tag="circuits:%d" % k, stall_s=120)
             for k in range(circuits)]
    return extra + [Job("framework.props.bigrun", "run_big_interp",
                {"props": [prop], "seed": seed * 6163 + k * 13 + 1, "count": 25 if q else 600, "monitors": monitors,
                 "monitor_opts": monitor_opts or {}, "deadline_s": 50 if q else 900, "calg": calg,
                 "gen": {"max_vars": 14 if k % 2 == 0 else 22, "max_arity": 8 if k % 2 == 0 else 12}},
                mode="interp", timeout=300 if q else 1800, tag="biginterp:%d" % k, stall_s=120)
            for k in range(n or (2 if q else 6))]


def jobs(prop, tier, seed, n=None, count=None, calg=None):
    from framework.common import Job

    q = tier == "quick"
    n = n or (2 if q else 6)
    out = []
    for k in range(n):
        task = {"seed": seed * 6151 + k * 31 + 5, "count": count or (120 if q else 3000), "deadline_s": 45 if q else 900,
                "pass_limit": 3000 if q else 20000, "exc_prop": prop, "calg": calg,
                "gen": {"max_vars": 14 if k % 2 == 0 else 24, "max_arity": 8 if k % 2 == 0 else 12}}
        out.append(Job("framework.props.bigrun", "run_big", task, mode="jit", timeout=300 if q else 1800,
                       tag="big:%d" % k, stall_s=90 if q else 180))
    return out


def aggregate(rep, jobs_):
    for j in jobs_:
        if j.status != "ok":
            rep.job_problem(j)
            if not j.result:
                continue
        r = j.result
        rep.evaluations += r["evals"]
        for k, v in r["counters"].items():
            if k.startswith("big.max_"):
                rep.maxc(k, v)
            else:
                rep.count(k, v)
        if isinstance(rep.distinct, set):
            rep.distinct.update("G" + h for h in r["nontrivial"])
        for s in r["samples"][:1]:
            rep.sample(s)
        for f in r["fails"]:
            if f["prop"] == rep.prop:
                rep.violation(f)
        rep.add_class("stream:large_models_planted:" + r["mode"], r["evals"])

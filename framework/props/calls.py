"""Direct-call workloads for C05 / C06 / C07 / C14 (and C16's call-level part): exhaustive small scope and seeded
random boxes per constraint type, every call judged by framework.callcheck.judge.
"""
import os
import random
import time

from framework import callcheck, gen
from framework import oracles as O

MODE = os.environ.get("NUCS_VERIF_MODE", "interp")


def scopes(tier):
    """Exhaustive small scopes per type: arity list + value universe [lo,hi]."""
    q = tier == "quick"
    S = {}
    for name in O.TYPES:
        if name in ("and", "exactly_true"):
            S[name] = {"arity": [2, 3, 4] if q else [2, 3, 4, 5, 6]}
            if name == "exactly_true":
                S[name]["arity"] = [1] + S[name]["arity"]
        elif name in ("no_sub_cycle", "scc"):
            S[name] = {"arity": [2, 3] if q else [2, 3, 4]}
        elif name.startswith("affine"):
            S[name] = ({"arity": [1, 2], "lo": -1, "hi": 2, "coefs": [-2, -1, 0, 1, 2], "consts": list(range(-4, 6))}
                       if q else
                       {"arity": [1, 2, 3], "lo": -1, "hi": 2, "coefs": [-3, -2, -1, 0, 1, 2],
                        "consts": list(range(-6, 8))})
        elif name == "gcc":
            S[name] = {"arity": [1, 2, 3] if q else [1, 2, 3, 4], "lo": 0, "hi": 2}
        elif name == "element_iv":
            S[name] = {"arity": [2], "lo": -1, "hi": 3}
        elif name == "lexicographic_leq":
            S[name] = {"arity": [2, 4] if q else [2, 4, 6], "lo": 0, "hi": 2}
        elif name == "relation":
            S[name] = {"arity": [1, 2] if q else [1, 2, 3], "lo": 0, "hi": 2}
        elif name == "dummy":
            S[name] = {"arity": [1, 2], "lo": 0, "hi": 2}
        elif name in ("element_liv",):
            S[name] = {"arity": [3] if q else [3, 4], "lo": -1 if not q else 0, "hi": 2}
        elif name in ("element_lic", "count_eq"):
            S[name] = {"arity": [2, 3] if q else [2, 3, 4], "lo": -1 if not q else 0, "hi": 2}
        else:
            S[name] = {"arity": [MIN for MIN in ([1, 2, 3] if O.MIN_ARITY.get(name, 1) == 1 else [2, 3])]
                       if q else ([1, 2, 3, 4] if O.MIN_ARITY.get(name, 1) == 1 else [2, 3, 4]),
                       "lo": 0, "hi": 2}
    return S


class Collector:
    def __init__(self, want_props, cap=40):
        self.want = set(want_props)
        self.cap = cap
        self.evals = 0
        self.hashes = set()
        self.nontrivial = set()
        self.per_type = {}
        self.status_pairs = {}
        self.fail_counts = {}
        self.fails = []
        self.samples = []
        self.hull_decided = 0
        self.entail_checked = 0
        self.points_in = 0
        self.collapsed = 0
        self.exceptions = 0
        self.max_lines = 0
        self.sampled_calls = 0
        self.sampled_tuples = 0
        self.sampled_satisfying = 0
        self.entail_sampled = 0
        self.hull_by_support = 0
        self.hull_wide = 0
        self.max_width = 0
        self.cross_checked = 0
        self.oracle_mismatch = 0
        self.mismatch_samples = []
        self.max_arity = 0

    def record(self, name, box, params, status, out, fails, facts):
        self.evals += 1
        h = hash((name, tuple(map(tuple, box)), tuple(params)))
        self.hashes.add(h)
        if facts.get("nontrivial"):
            self.nontrivial.add(h)
        self.per_type[name] = self.per_type.get(name, 0) + 1
        k = "%s:%d" % (name, status)
        self.status_pairs[k] = self.status_pairs.get(k, 0) + 1
        if facts.get("hull"):
            self.hull_decided += 1
        if facts.get("entail_checked"):
            self.entail_checked += 1
        if facts.get("sampled"):
            self.sampled_calls += 1
            self.sampled_tuples += facts["sampled"]
            self.sampled_satisfying += facts.get("sampled_satisfying", 0)
        if facts.get("entail_sampled"):
            self.entail_sampled += 1
        if facts.get("hull_by_support"):
            self.hull_by_support += 1
        if facts.get("hull_wide"):
            self.hull_wide += 1
            w = max(b - a for a, b in box)
            if w > self.max_width:
                self.max_width = w
        if facts.get("oracles_cross_checked"):
            self.cross_checked += 1
        if facts.get("oracle_mismatch"):
            self.oracle_mismatch += 1
            if len(self.mismatch_samples) < 3:
                self.mismatch_samples.append({"name": name, "box": box, "params": list(params)})
        if len(box) > self.max_arity:
            self.max_arity = len(box)
        if facts.get("point_in"):
            self.points_in += 1
        elif status != 0 and callcheck.is_point(out):
            self.collapsed += 1
        if len(self.samples) < 6 and facts.get("nontrivial") and self.evals % 97 == 1:
            self.samples.append({"name": name, "box": box, "params": list(params), "status": status, "out": out})
        for f in fails:
            if f["prop"] not in self.want:
                continue
            key = "%s|%s|%s" % (f["prop"], f["kind"], name)
            c = self.fail_counts.get(key, 0)
            self.fail_counts[key] = c + 1
            if c < self.cap:
                g = dict(f)
                g["call"] = {"name": name, "box": box, "params": list(params)}
                g["status"] = status
                g["out"] = out
                g["mode"] = MODE
                self.fails.append(g)

    def result(self):
        return {
            "evals": self.evals, "hashes": list(self.hashes), "nontrivial": list(self.nontrivial),
            "per_type": self.per_type, "status_pairs": self.status_pairs, "fail_counts": self.fail_counts,
            "fails": self.fails, "samples": self.samples, "hull_decided": self.hull_decided,
            "entail_checked": self.entail_checked, "points_in": self.points_in, "collapsed": self.collapsed,
            "exceptions": self.exceptions, "max_lines": self.max_lines, "mode": MODE,
            "sampled_calls": self.sampled_calls, "sampled_tuples": self.sampled_tuples,
            "sampled_satisfying": self.sampled_satisfying, "entail_sampled": self.entail_sampled,
            "max_arity": self.max_arity, "hull_by_support": self.hull_by_support, "hull_wide": self.hull_wide,
            "max_width": self.max_width, "cross_checked": self.cross_checked,
            "oracle_mismatch": self.oracle_mismatch, "mismatch_samples": self.mismatch_samples,
        }


def _call(name, box, params, lb):
    """Runs the real propagator (twice for idempotence). Returns (status, out, second, exc)."""
    from framework import nucsmap as M
    from framework.planes.linebudget import BudgetExceeded, line_limit

    try:
        if lb is not None:
            lb.begin(line_limit(len(box), len(params)))
        try:
            st, out = M.run_propagator(name, box, params)
        finally:
            if lb is not None:
                lb.end()
    except BudgetExceeded as e:
        return None, None, None, ("budget", str(e))
    except (IndexError, OverflowError, ValueError, ZeroDivisionError, TypeError) as e:
        return None, None, None, (type(e).__name__, str(e)[:200])
    second = None
    if st != 0 and all(a <= b for a, b in out):
        try:
            if lb is not None:
                lb.begin(line_limit(len(box), len(params)))
            try:
                second = M.run_propagator(name, out, params)
            finally:
                if lb is not None:
                    lb.end()
        except BudgetExceeded as e:
            return st, out, None, ("budget2", str(e))
        except (IndexError, OverflowError, ValueError, ZeroDivisionError, TypeError) as e:
            return st, out, None, (type(e).__name__ + "2", str(e)[:200])
    return st, out, second, None


def judge_call(col, name, box, params, lb, hull_limit=callcheck.HULL_LIMIT):
    if lb is None:
        # no logical step budget outside interpretation: leave a marker so that the parent can name a stalled call
        from framework import progress

        progress.mark({"call": {"name": name, "box": box, "params": list(params)}})
    st, out, second, exc = _call(name, box, params, lb)
    if exc is not None and st is None:
        col.exceptions += 1
        kind, msg = exc
        if kind.startswith("budget"):
            f = {"prop": "C04", "kind": "propagator_step_budget", "detail": msg}
        else:
            f = {"prop": "C16", "kind": "exception_" + kind, "detail": msg}
        # a call that never returns a status cannot satisfy C05/C06/C14 either
        col.record(name, box, params, -1, [], [f, dict(f, prop="C05", kind="call_did_not_complete:" + f["kind"]),
                                               dict(f, prop="C14", kind="call_did_not_complete:" + f["kind"]),
                                               dict(f, prop="C06", kind="call_did_not_complete:" + f["kind"])],
                   {"nontrivial": True})
        return
    fails, facts = callcheck.judge(name, box, params, st, out, second, hull_limit=hull_limit)
    if exc is not None:
        kind, msg = exc
        fails.append({"prop": "C04" if kind.startswith("budget") else "C16", "kind": "second_call_" + kind,
                      "detail": msg})
        fails.append({"prop": "C14", "kind": "second_call_did_not_complete", "detail": msg})
    col.record(name, box, params, st, out, fails, facts)


def run_calls(task):
    """task: {props:[...], names:[...], kind:'exhaustive'|'random', tier, seed, count, opts, deadline_s}"""
    t0 = time.time()
    col = Collector(task["props"])
    lb = None
    if MODE == "interp" and task.get("line_budget", True):
        from framework.planes.linebudget import LineBudget, propagator_modules

        lb = LineBudget()
        lb.install(propagator_modules())
    deadline = t0 + task.get("deadline_s", 1e9)
    truncated = False
    try:
        if task["kind"] == "exhaustive":
            sc = scopes(task["tier"])
            for name in task["names"]:
                s = dict(sc[name])
                if task.get("opts"):
                    s.update(task["opts"])
                if task.get("arity") is not None:
                    s["arity"] = [a for a in s["arity"] if a in task["arity"]]
                for box, params in gen.enum_small(name, s):
                    judge_call(col, name, box, params, lb)
                    if (col.evals & 1023) == 0 and time.time() > deadline:
                        truncated = True
                        break
        elif task["kind"] == "points":
            # all instantiated tuples (C06)
            sc = scopes(task["tier"])
            for name in task["names"]:
                s = dict(sc[name])
                if task.get("opts"):
                    s.update(task["opts"])
                lo, hi = s.get("lo", 0), s.get("hi", 2)
                import itertools

                for n in s["arity"]:
                    if name in ("and", "exactly_true"):
                        vals = [0, 1]
                    elif name in ("no_sub_cycle", "scc"):
                        vals = list(range(n))
                    else:
                        vals = list(range(lo, hi + 1))
                    plist = list(gen.enum_params(name, n, lo, hi, s))
                    for t in itertools.product(vals, repeat=n):
                        box = [[v, v] for v in t]
                        for p in plist:
                            if name == "gcc":
                                m = (len(p) - 1) // 2
                                if min(t) < p[0] or max(t) > p[0] + m - 1:
                                    continue
                            judge_call(col, name, box, p, lb)
            # circuit constraints are decisive on permutations: all of them up to n = 6, random ones up to n = 10
            import itertools

            prnd = random.Random(task.get("seed", 0) + 99)
            for name in task["names"]:
                if name not in ("no_sub_cycle", "scc"):
                    continue
                for n in (4, 5, 6):
                    for t in itertools.permutations(range(n)):
                        judge_call(col, name, [[v, v] for v in t], [], lb)
                for n in (7, 8, 9, 10):
                    for _ in range(300 if task["tier"] == "quick" else 5000):
                        t = list(range(n))
                        prnd.shuffle(t)
                        if prnd.random() < 0.5:
                            # derangement-free shapes are rare at random: build products of two cycles explicitly
                            k = prnd.randint(2, n - 2)
                            perm = list(range(n))
                            prnd.shuffle(perm)
                            t = [0] * n
                            for cyc in (perm[:k], perm[k:]):
                                for i, v in enumerate(cyc):
                                    t[v] = cyc[(i + 1) % len(cyc)]
                        judge_call(col, name, [[v, v] for v in t], [], lb)
        else:
            rnd = random.Random(task["seed"])
            opts = task.get("opts") or {}
            names = task["names"]
            for i in range(task["count"]):
                name = names[i % len(names)]
                box, params = gen.gen_call(rnd, name, opts)
                if opts.get("stretch"):
                    box, params = gen.stretch_call(rnd, name, box, params)
                if task.get("points") and rnd.random() < task["points"]:
                    box = [[v, v] for v in (rnd.randint(a, b) for a, b in box)]
                elif opts.get("almost_ground"):
                    # all but 1-3 variables instantiated (preferably on a satisfying tuple): long argument lists whose box is
                    # still small enough for the enumerating oracles (hull, entailment) to be exact
                    t = None
                    for _ in range(25):
                        cand = tuple(rnd.randint(a, b) for a, b in box)
                        if t is None:
                            t = cand
                        if (name not in ("no_sub_cycle", "scc") or O.is_permutation(cand)) and O.SEM[name](cand, params):
                            t = cand
                            break
                    free = set(rnd.sample(range(len(box)), min(len(box), rnd.randint(1, opts["almost_ground"]))))
                    box = [list(box[k]) if k in free else [t[k], t[k]] for k in range(len(box))]
                judge_call(col, name, box, params, lb, hull_limit=task.get("hull_limit", callcheck.HULL_LIMIT))
                if (col.evals & 255) == 0 and time.time() > deadline:
                    truncated = True
                    break
    finally:
        if lb is not None:
            col.max_lines = lb.max_seen
            lb.uninstall()
    r = col.result()
    r["truncated"] = truncated
    r["wall"] = time.time() - t0
    r["task"] = {k: v for k, v in task.items() if k != "props"}
    return r


def replay_call(task):
    """Re-executes one recorded call and judges it for one property."""
    col = Collector([task["prop"]], cap=1000)
    lb = None
    if MODE == "interp":
        from framework.planes.linebudget import LineBudget, propagator_modules

        lb = LineBudget()
        lb.install(propagator_modules())
    try:
        c = task["call"]
        judge_call(col, c["name"], c["box"], c["params"], lb)
    finally:
        if lb is not None:
            lb.uninstall()
    return col.result()

"""C14 - bound-consistent propagators compute exactly the bounds hull of the solutions."""
from framework import oracles as O
from framework.props import callfamily

RULE = ("one call on the real function vs the exhaustive bounds hull (BC-documented types): output == hull, "
        "inconsistency iff no satisfying tuple, second consecutive call changes nothing; affine_eq vs an independent "
        "one-round interval computation. distinct = distinct (type, box, params); non-trivial = the call pruned a "
        "bound or answered inconsistency/entailment")


def main(tier, seed):
    names = O.BC_TYPES + ["affine_eq"]
    from framework.props import bigrun

    rep = callfamily.run("C14", tier, seed, names, "exploration", RULE,
                         extra_jobs=bigrun.interp_jobs("C14", tier, seed + 9, ["budget", "calls"],
                                                       monitor_opts={"calls": {"hull_limit": 3000}}),
                         extra_aggregate=bigrun.aggregate)
    rep.need("calls.distinct_judged", 1000, "in-engine executions on large models judged against the exact hull")
    return rep.finish()


def replay(rep_json):
    return callfamily.replay_generic("C14", rep_json)

"""C01 - every reported solution satisfies every posted constraint."""
from framework import common
from framework import oracles as O
from framework.common import Job
from framework.props import modelfamily
from framework.report import Report

RULE = ("every vector yielded by solve()/returned by minimize()/maximize() (backtracking solver, both modes; the "
        "multiprocessing solver through real processes on a subset) is checked in full: inside its declared domain, "
        "aliases differ by their offsets, O-sem of every posted constraint. Workload: random in-contract models x "
        "random configurations, plus every constraint type posted alone, plus large models built around a planted "
        "assignment (8-35 variables, arity <= 12, compiled mode under a logical pass budget). distinct = distinct (model, cfg, operation); "
        "non-trivial = the run made >= 1 choice and delivered or refuted something")


def single_type_jobs(tier, seed):
    """Every constraint type posted alone (the suite never does: neighbours mask a missing check)."""
    q = tier == "quick"
    jobs = []
    types = [t for t in O.TYPES if t not in ("no_sub_cycle", "scc")]
    for k, chunk in enumerate([types[i::4] for i in range(4)]):
        for mode in ("interp", "jit"):
            task = {"props": ["C01"], "seed": seed * 131 + k * 17 + (3 if mode == "jit" else 0),
                    "count": (12 if q else 150) * len(chunk), "gen": modelfamily.clean_gen(
                        {"types": chunk, "max_props": 1, "circuit": 0.0, "single_types_cycle": True}),
                    "configs": "random", "configs_per_model": 2, "monitors": ["budget"], "do": ["enum", "opt"],
                    "objectives_per_model": 1, "max_points": 6000, "deadline_s": 80 if q else 600,
                    "stream": "single_type"}
            jobs.append(Job("framework.props.models", "run_models", task, mode=mode, timeout=300 if q else 1500,
                            tag="single:%s:%d" % (mode, k), stall_s=60))
    return jobs


def main(tier, seed):
    rep = Report("C01", tier, seed, "exploration", RULE)
    if common.warm_cache("jit") < 0:
        rep.inconclusive.append("JIT cache warm-up failed")
    jobs = modelfamily.build_jobs("C01", tier, seed, do=["enum", "opt"], monitors=["budget"],
                                  streams=single_type_jobs(tier, seed), per_job=45 if tier == "quick" else 800)
    from framework.props import mpfamily

    from framework.props import bigrun

    jobs.extend(mpfamily.c01_jobs(tier, seed))
    jobs.extend(bigrun.jobs("C01", tier, seed))
    common.run_jobs(jobs)
    modelfamily.aggregate(rep, [j for j in jobs if j.module == "framework.props.models"])
    mpfamily.aggregate(rep, [j for j in jobs if j.module == "framework.props.mpfamily"])
    bigrun.aggregate(rep, [j for j in jobs if j.module == "framework.props.bigrun"])
    rep.need("big.solutions_checked_against_O-sem", 2000, "solution checker on large models (8-35 variables, arity <= 12)")
    rep.need("solutions_checked_against_O-sem", 3000, "solution checker")
    rep.need("runs_jit", 200, "compiled runs")
    rep.assumptions = ["O-sem predicates are a faithful reading of docs/source/reference.rst",
                       "parameter contract of DESIGN.md section 4"]
    return rep.finish()


def replay(rep_json):
    return modelfamily.replay_generic("C01", rep_json)

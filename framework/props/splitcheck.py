"""C12 workloads: exhaustive interval arithmetic of Problem.split + sampled solution-set partition."""
import collections
import copy
import os
import random
import time

from framework import gen, modelrun, progress
from framework import oracles as O
from framework.common import case_hash

MODE = os.environ.get("NUCS_VERIF_MODE", "interp")


def _snapshot(p):
    return copy.deepcopy((p.shr_domains_lst, p.dom_indices_lst, p.dom_offsets_lst, p.propagators, p.shr_domain_nb,
                          p.propagator_nb))


def _dummy_alg():
    from framework import nucsmap as M

    return M.ALG["dummy"]


def check_split(p, k, var, model):
    """Post-condition of one split call. Returns (failures, parts)."""
    fails = []
    before = _snapshot(p)
    try:
        parts = p.split(k, var)
    except Exception as e:
        return [("split_raised:" + type(e).__name__, "split(%d, %d) raised %s" % (k, var, str(e)[:200]))], None
    if _snapshot(p) != before:
        fails.append(("original_mutated", "split(%d, %d) changed the original problem" % (k, var)))
    d = model["idx"][var]
    a, b = model["doms"][d]
    ranges = []
    for q in parts:
        if q is p:
            fails.append(("part_is_the_original_object", "a sub-problem is the original object itself"))
        sd = [list(x) for x in q.shr_domains_lst]
        if q.dom_indices_lst != before[1] or q.dom_offsets_lst != before[2] or q.propagators != before[3]:
            fails.append(("part_differs_beyond_the_domain", "variables or constraints of a sub-problem differ"))
        for i, dom in enumerate(sd):
            if i != d and dom != before[0][i]:
                fails.append(("other_domain_changed", "sub-problem changes shared domain %d: %r vs %r" % (
                    i, dom, before[0][i])))
        ranges.append(tuple(sd[d]))
    if not parts:
        fails.append(("no_part", "split returned no sub-problem"))
        return fails, parts
    # independence: changing one problem (the way a user extends a model) must not change any other one
    try:
        again = p.split(k, var)
        objs = [p] + list(again)
        for i, q in enumerate(objs):
            others = [(j, _snapshot(o)) for j, o in enumerate(objs) if j != i]
            q.add_variable((0, 1), 0, 7) if i % 2 else q.add_variable((0, 1))
            q.add_propagator(([0], _dummy_alg(), []))
            for j, snap in others:
                if _snapshot(objs[j]) != snap:
                    fails.append(("problems_share_mutable_state",
                                  "extending %s changed %s (add_variable / add_propagator on one object is visible in "
                                  "the other)" % ("the original" if i == 0 else "sub-problem %d" % (i - 1),
                                                  "the original" if j == 0 else "sub-problem %d" % (j - 1))))
                    break
            if fails and fails[-1][0] == "problems_share_mutable_state":
                break
        # p itself was extended by the test above: restore it
        p.shr_domains_lst, p.dom_indices_lst, p.dom_offsets_lst, p.propagators, p.shr_domain_nb, p.propagator_nb = \
            copy.deepcopy(before)
    except Exception as e:
        fails.append(("independence_test_raised:" + type(e).__name__, str(e)[:200]))
    srt = sorted(ranges)
    ok = all(lo <= hi for lo, hi in srt) and srt[0][0] == a and srt[-1][1] == b and all(
        srt[i][1] + 1 == srt[i + 1][0] for i in range(len(srt) - 1))
    if not ok:
        fails.append(("ranges_not_a_partition", "split(%d) of [%d,%d] gives %r" % (k, a, b, ranges)))
    return fails, parts


def run_split(task):
    from framework import nucsmap as M

    t0 = time.time()
    rnd = random.Random(task["seed"])
    res = {"evals": 0, "fails": [], "fail_counts": {}, "hashes": [], "nontrivial": [], "samples": [], "counters": {},
           "mode": MODE, "exhaustive_interval_cases": 0}

    def cnt(k, n=1):
        res["counters"][k] = res["counters"].get(k, 0) + n

    def fail(kind, detail, wit):
        c = res["fail_counts"].get(kind, 0)
        res["fail_counts"][kind] = c + 1
        if c < 5:
            res["fails"].append(dict(wit, prop="C12", kind=kind, detail=detail, mode=MODE))

    # ---- exhaustive interval arithmetic (only in the chunk 0 job)
    if task.get("exhaustive"):
        for a in range(-4, 5):
            for size in range(1, 10):
                b = a + size - 1
                model = {"doms": [[a, b], [0, 1]], "idx": [0, 1, 0, 1], "off": [0, 0, 2, -1],
                         "props": [[[0, 1], "dummy", []], [[2, 3], "dummy", []]]}
                for k in range(1, size + 4):
                    for var in (0, 2):  # own domain / alias with offset (variable index != shared-domain index)
                        p = M.build_problem(model)
                        fails, parts = check_split(p, k, var, model)
                        res["evals"] += 1
                        res["exhaustive_interval_cases"] += 1
                        cnt("interval.k_gt_size" if k > size else "interval.k_le_size")
                        cnt("interval.alias_variable" if var == 2 else "interval.own_variable")
                        h = case_hash(["iv", a, b, k, var])
                        res["hashes"].append(h)
                        if size >= 2 and k >= 2:
                            res["nontrivial"].append(h)
                        for kind, detail in fails:
                            fail(kind, detail, {"split": {"model": model, "k": k, "var": var}})
    # ---- sampled: union of the parts' solutions == O-brute(original), pairwise disjoint, each part terminates
    deadline = t0 + task.get("deadline_s", 1e9)
    for it in range(task.get("count", 0)):
        if time.time() > deadline:
            res["truncated"] = True
            break
        model, tags = gen.gen_model(rnd, task.get("gen") or {"circuit": 0.0, "gcc_zero_cap": False})
        large = it % 6 == 5
        if large:
            # a large planted model with a small search space, half of them behind 250-300 instantiated variables: the split
            # variable and its shared domain then have indices beyond 8 bits and differ from each other
            from framework.props import bigrun

            big, plant = bigrun.gen_big(rnd, {"max_vars": 14, "circuit": 0.0})
            model = bigrun.restrict(big, plant, rnd, rnd.randint(2, 4))
            if it % 12 == 5:
                model, plant = bigrun.pad_model(model, plant, rnd)
            cnt("sampled.large_models")
        if not (1 <= O.model_points(model) <= 3000):
            continue
        expected = collections.Counter(O.brute(model))
        var = rnd.randrange(len(model["idx"]))
        if large:
            open_vars = [v for v in range(len(model["idx"])) if model["doms"][model["idx"][v]][0] <
                         model["doms"][model["idx"][v]][1]]
            if open_vars and rnd.random() < 0.8:
                var = rnd.choice(open_vars)
        d = model["idx"][var]
        size = model["doms"][d][1] - model["doms"][d][0] + 1
        k = rnd.randint(1, size + 3)
        cfg = gen.gen_config(rnd, model)
        progress.mark({"split": {"model": model, "k": k, "var": var}, "cfg": cfg})
        p = M.build_problem(model)
        # the problem may already have been used: a solver built (and run) on it before it is split
        pre = rnd.choice(["fresh", "solver_built", "solved_once", "nested"])
        cnt("sampled.history_" + pre)
        nested_model = model
        if pre in ("solver_built", "solved_once", "nested"):
            s0 = M.build_solver(model, cfg, problem=p)
            if pre != "solver_built":
                g = s0.solve()
                for _ in range(3):
                    if next(g, None) is None:
                        break
        if pre == "nested":
            # split once, build a solver on a part, then split that part again (on any variable)
            k1, v1 = rnd.randint(1, 3), rnd.randrange(len(model["idx"]))
            try:
                first = p.split(k1, v1)
            except Exception as e:
                res["evals"] += 1
                fail("split_raised:" + type(e).__name__, "split(%d, %d) raised %s" % (k1, v1, str(e)[:200]),
                     {"split": {"model": model, "k": k1, "var": v1}, "cfg": cfg})
                continue
            p = rnd.choice(first)
            nested_model = dict(model)
            nested_model["doms"] = [list(x) for x in p.shr_domains_lst]
            M.build_solver(nested_model, cfg, problem=p)
            model = nested_model
            expected = collections.Counter(O.brute(model))
            d = model["idx"][var]
            size = model["doms"][d][1] - model["doms"][d][0] + 1
            k = rnd.randint(1, size + 3)
        fails, parts = check_split(p, k, var, model)
        res["evals"] += 1
        cnt("sampled.splits")
        cnt("sampled.k_gt_size" if k > size else "sampled.k_le_size")
        cnt("sampled.alias_variable" if var >= len(model["doms"]) else "sampled.own_variable")
        wit = {"split": {"model": model, "k": k, "var": var}, "cfg": cfg}
        for kind, detail in fails:
            fail(kind, detail, wit)
        if not parts:
            continue
        union = collections.Counter()
        bad = False
        for q in parts:
            sub = dict(model)
            sub["doms"] = [list(x) for x in q.shr_domains_lst]
            # solve the returned object itself (not a model rebuilt from its fields)
            out = modelrun.run_enum(sub, cfg, {"budget": {}} if MODE == "interp" else None,
                                    max_solutions=3 * sum(expected.values()) + 50, solver_kw={"problem_obj": q})
            cnt("sampled.parts_enumerated")
            if out.error:
                fail("sub_problem_not_solved_in_finite_time" if out.error == "budget" else "sub_problem_" + out.error,
                     "%s: %s" % (out.error, out.error_detail), wit)
                bad = True
                break
            c = collections.Counter(out.solutions)
            if any(union[s] for s in c):
                fail("two_parts_share_a_solution", "solution %r yielded by two sub-problems" % (
                    [list(s) for s in c if union[s]][:2],), wit)
            union += c
        h = case_hash(["s", model, k, var, cfg])
        res["hashes"].append(h)
        if len(parts) >= 2 and sum(expected.values()) >= 1:
            res["nontrivial"].append(h)
        if not bad and union != expected:
            fail("union_differs_from_original_solution_set",
                 "union of %d parts has %d solutions, original has %d; missing %r extra %r" % (
                     len(parts), sum(union.values()), sum(expected.values()),
                     [list(s) for s in expected if expected[s] > union.get(s, 0)][:3],
                     [list(s) for s in union if union[s] > expected.get(s, 0)][:3]), wit)
        if len(res["samples"]) < 3 and len(parts) >= 2 and it % 11 == 0:
            res["samples"].append({"model": model, "k": k, "var": var,
                                   "ranges": [q.shr_domains_lst[d] for q in parts],
                                   "solutions": sum(expected.values())})
    res["wall"] = time.time() - t0
    return res


def replay_split(task):
    from framework import nucsmap as M

    w = task["witness"]
    sp, cfg = w["split"], w.get("cfg") or {"calg": "bc", "vh": "first", "dh": "min"}
    model, k, var = sp["model"], sp["k"], sp["var"]
    fails = []
    p = M.build_problem(model)
    fl, parts = check_split(p, k, var, model)
    fails += [{"kind": a, "detail": b} for a, b in fl]
    if parts and O.model_points(model) <= 20000:
        expected = collections.Counter(O.brute(model))
        union = collections.Counter()
        for q in parts:
            sub = dict(model)
            sub["doms"] = [list(x) for x in q.shr_domains_lst]
            out = modelrun.run_enum(sub, cfg, {"budget": {}} if MODE == "interp" else None)
            if out.error:
                fails.append({"kind": "sub_problem_" + out.error, "detail": str(out.error_detail)})
                break
            c = collections.Counter(out.solutions)
            if any(union[x] for x in c):
                fails.append({"kind": "two_parts_share_a_solution", "detail": ""})
            union += c
        else:
            if union != expected:
                fails.append({"kind": "union_differs_from_original_solution_set", "detail": "%d vs %d" % (
                    sum(union.values()), sum(expected.values()))})
    return {"fails": fails}

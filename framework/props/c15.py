"""C15 - results are reproducible, mode-independent and independent of earlier solver use."""
from framework import common
from framework.common import Job
from framework.modelrun import STAT_KEYS
from framework.report import Report

RULE = ("a deterministic list of cases (random models x configurations x {enumerate, partial enumeration, minimise, "
        "maximise} + shipped models) is executed in five fresh processes per batch: compiled, compiled again, "
        "interpreted, compiled after a random history, interpreted after a random history (history = solvers "
        "constructed and abandoned on other problems, enumerations left suspended, optimisations, registration of "
        "custom propagators / heuristics / consistency algorithms, an earlier solver and split on the same problem "
        "object). The canonical trace (solution sequence + 13 statistics) of every case must be identical on all five "
        "axes, and the problem's observable fields (domains, indices, offsets, constraints as a multiset) unchanged by "
        "constructing solvers. distinct = distinct (batch, case); non-trivial = >= 1 choice")


def main(tier, seed):
    q = tier == "quick"
    rep = Report("C15", tier, seed, "exploration", RULE)
    if common.warm_cache("jit") < 0:
        rep.inconclusive.append("JIT cache warm-up failed")
    nb = 3 if q else 24
    count = 45 if q else 250
    axes = [("compiled", "jit", None), ("compiled_again", "jit", None), ("interpreted", "interp", None),
            ("compiled_history", "jit", 1), ("interpreted_history", "interp", 2)]
    jobs = {}
    for b in range(nb):
        for name, mode, h in axes:
            jobs[(b, name)] = Job("framework.props.tracerun", "run_trace",
                                  {"cases_seed": seed * 1009 + b, "count": count, "tier": tier,
                                   "history_seed": None if h is None else seed * 77 + b * 10 + h},
                                  mode=mode, timeout=500 if q else 2400, tag="trace:%d:%s" % (b, name), stall_s=240)
    common.run_jobs(list(jobs.values()))
    distinct = set()
    for b in range(nb):
        ref = jobs[(b, "compiled")]
        if ref.status != "ok":
            rep.job_problem(ref)
            continue
        rt = ref.result["traces"]
        for i in ref.result["nontrivial"]:
            distinct.add("%d/%d" % (b, i))
        rep.count("cases", len(rt))
        for name, mode, h in axes[1:]:
            j = jobs[(b, name)]
            if j.status != "ok":
                if j.rc is not None and j.rc < 0:
                    rep.violation({"prop": "C15", "kind": "process_killed_by_signal_on_axis_" + name,
                                   "detail": "the %s process died with signal %d while executing %r; the same case list "
                                             "completes in a fresh compiled process" % (name, -j.rc, j.stalled_case),
                                   "cases_seed": seed * 1009 + b, "axis": name, "case": j.stalled_case})
                else:
                    rep.job_problem(j)
                continue
            rep.count("history_steps", len(j.result["history"]))
            for hs in j.result["history"]:
                rep.count("history." + hs)
            for pc in j.result["problem_changes"]:
                rep.violation({"prop": "C15", "kind": "solver_construction_changes_the_problem", "detail": pc["detail"],
                               "batch": b, "case_index": pc["case"], "axis": name, "before": pc["before"],
                               "after": pc["after"]})
            ot = j.result["traces"]
            for i, (a, c) in enumerate(zip(rt, ot)):
                rep.evaluations += 1
                rep.count("comparisons." + name)
                if a == c:
                    continue
                if a["error"] != c["error"]:
                    what = "error %r vs %r" % (a["error"], c["error"])
                elif a["solutions"] != c["solutions"]:
                    na = len(a["solutions"] or [])
                    nc = len(c["solutions"] or [])
                    what = "solution sequences differ (%d vs %d solutions)" % (na, nc)
                else:
                    bad = [(STAT_KEYS[k], a["stats"][k], c["stats"][k]) for k in range(13)
                           if a["stats"][k] != c["stats"][k]]
                    what = "statistics differ (counter, compiled fresh, %s): %r" % (name, bad)
                kind = {"compiled_again": "differs_between_two_fresh_runs", "interpreted": "differs_between_modes",
                        "compiled_history": "differs_after_history",
                        "interpreted_history": "differs_after_history_or_between_modes"}[name]
                rep.violation({"prop": "C15", "kind": kind, "detail": "batch %d case %d: %s" % (b, i, what),
                               "cases_seed": seed * 1009 + b, "case_index": i, "axis": name,
                               "history": j.result["history"][:30]})
        for s in [{"batch": b, "cases": len(rt), "first_trace": rt[0]}][:1]:
            rep.sample(s, cap=3)
    rep.distinct = distinct
    rep.need("comparisons.interpreted", 100, "mode axis")
    rep.need("comparisons.compiled_history", 100, "history axis")
    rep.need("history_steps", 100, "history steps")
    for hk in ("history.abandon", "history.suspend", "history.optimize", "history.reuse_problem_object",
               "history.register_propagator", "history.register_consistency_algorithm", "history.use_registered_vh",
               "history.use_registered_dh", "history.use_registered_calg"):
        rep.need(hk, 3, hk)
    rep.assumptions = ["only differences visible in outputs or statistics are seen",
                       "int32 overflow differences between modes are excluded by the contract's magnitude bound"]
    return rep.finish()


def replay(rep_json):
    print("replay: the witness names (cases_seed, case_index, axis); re-run ./check C15 with the same VERIF_SEED")
    return 2

"""C18 - a dying worker process cannot hang the multiprocessing solver (fault enumeration)."""
from framework import common
from framework.common import Job
from framework.report import Report

RULE = ("fault space enumerated: worker w in 0..k-1 x k in {1,2,3,4} x death point in {before the first message, "
        "before/after every solution message the worker would send, just before the completion marker} x manner in "
        "{SIGKILL, os._exit(1), os._exit(0) without the completion marker, uncaught exception} x operation in {enumeration, minimise, maximise} on two small "
        "models, real forked workers (faults injected from the harness, inherited through fork). Verdict per case by a "
        "structural oracle: 'no producer alive and the caller inside Queue.get(timeout=None)' = blocked forever; a "
        "caller that polls gets 60 s after the last worker's death. returned => sub-multiset of the sequential "
        "results containing everything the survivors deliver; raised => accepted. Second grid: the victim dies, a "
        "survivor's message arrives after the death, then all survivors are alive and silent for 70 s (long refutation / "
        "blocked put): the caller must return or raise within 25 s of the death (the repaired code needs ~2 s). Third grid: "
        "SIGKILL of a worker while the consumer is slow (full pipe), with solution messages below and far above PIPE_BUF. distinct = distinct fault cases; "
        "all are non-trivial")


def main(tier, seed):
    q = tier == "quick"
    rep = Report("C18", tier, seed, "fault_enumeration", RULE)
    nchunks = 16
    jobs = [Job("framework.props.mpfamily", "run_mp_faults",
                {"tier": tier, "chunk": c, "nchunks": nchunks, "limit": 10 if q else None, "seed": seed,
                 "deadline_s": 150 if q else 1500},
                mode="interp" if c % 4 else "jit", timeout=400 if q else 2400, tag="faults:%d" % c, stall_s=200)
            for c in range(nchunks)]
    sil = 12
    jobs += [Job("framework.props.mpfamily", "run_mp_silent_survivor",
                 {"tier": tier, "chunk": c, "nchunks": sil, "limit": 1 if q else None, "seed": seed},
                 mode="interp" if c % 2 else "jit", timeout=400 if q else 2400, tag="silent:%d" % c, stall_s=200)
             for c in range(sil)]
    # a kill while the consumer is slow, with messages below and far above PIPE_BUF (one case per job: a blocked caller thread
    # stays behind in the child)
    from framework.props.mpfamily import midwrite_grid

    for i, c in enumerate(midwrite_grid(tier)):
        jobs.append(Job("framework.props.mpfamily", "run_mp_midwrite", {"cases": [c]}, mode="jit",
                        timeout=400, tag="midwrite:%d" % i, stall_s=200))
    common.run_jobs(jobs)
    distinct = set()
    grid = 0
    und = []
    for j in jobs:
        if j.status != "ok":
            rep.job_problem(j)
            continue
        r = j.result
        if j.func == "run_mp_faults":
            grid = r["grid_size"]
        rep.evaluations += r["evals"]
        distinct.update(r["hashes"])
        for k, v in r["counters"].items():
            rep.count(k, v)
        for s in r["samples"][:1]:
            rep.sample(s)
        for f in r["fails"]:
            rep.violation(f)
        for k, v in r["fail_counts"].items():
            rep.count("failures." + k, v)
        und += r["undecided"]
        if r.get("truncated"):
            rep.count("jobs_truncated_by_deadline")
    rep.distinct = distinct
    rep.counters["fault_grid_size"] = grid
    rep.exhaustive = (not q) and rep.evaluations >= grid
    rep.need("silent_survivor.cases", 10, "death followed by a late message and silent survivors")
    rep.need("midwrite.cases", 4, "kills under a slow consumer")
    if und:
        rep.inconclusive.append("%d fault cases hit the wall-clock cap with workers still alive: %r" % (
            len(und), und[:3]))
    rep.need("outcome.raised" if rep.counters.get("outcome.raised") else "outcome.returned", 1, "fault outcomes")
    if rep.evaluations < (100 if q else grid):
        rep.inconclusive.append("only %d of %d fault cases executed" % (rep.evaluations, grid))
    rep.assumptions = ["the crash point is made well defined by letting the worker's feeder thread flush before it dies",
                       "models are small; the fault space is complete for them, not for all problems"]
    return rep.finish()


def replay(rep_json):
    from framework.props import _modelprop

    return _modelprop.replay_job("C18", rep_json, "framework.props.mpfamily", "replay_fault")

"""C13 workload: metamorphic relations between a model and its meaning-preserving rewrites (no oracle needed)."""
import collections
import os
import random
import time

from framework import gen, modelrun, progress, rewrites
from framework import oracles as O
from framework.common import case_hash

MODE = os.environ.get("NUCS_VERIF_MODE", "interp")
INTERP = MODE == "interp"


def _enum(model, cfg, limit=200000):
    out = modelrun.run_enum(model, cfg, {"budget": {}} if INTERP and O.model_points(model) < 10 ** 6 else None,
                            max_solutions=limit)
    return out


def _apply(name, model, rnd):
    if name == "dealias":
        m2, back, n = rewrites.dealias(model)
        return m2, back
    if name == "permute_constraints":
        return rewrites.permute_constraints(model, rnd)
    if name == "permute_variables":
        m2, back, _ = rewrites.permute_variables(model, rnd)
        return m2, back
    if name == "permute_arguments":
        return rewrites.permute_arguments(model, rnd)
    if name == "duplicate_constraint":
        return rewrites.duplicate_constraint(model, rnd)
    if name == "add_true_constraint":
        return rewrites.add_true_constraint(model, rnd)
    if name == "translate":
        return rewrites.translate(model, rnd.choice([-7, -3, 2, 5, 11]))
    raise ValueError(name)


REWRITES = ["dealias", "permute_constraints", "permute_variables", "duplicate_constraint", "add_true_constraint",
            "permute_arguments"]


def _cfg_for(name, cfg, model2, back_inv=None):
    """Configurations are kept, except data attached to domain indices (cost tables) which are dropped."""
    c = {k: v for k, v in cfg.items() if k != "costs"}
    if name in ("dealias", "permute_variables"):
        c.pop("decision", None)  # an explicit order of the decision domains refers to shared-domain indices too
    if c.get("vh") == "max_regret":
        c["vh"] = "first"
    if c.get("dh") == "min_cost":
        c["dh"] = "min"
    return c


def run_meta(task):
    t0 = time.time()
    rnd = random.Random(task["seed"])
    res = {"evals": 0, "fails": [], "fail_counts": {}, "hashes": [], "nontrivial": [], "samples": [], "counters": {},
           "mode": MODE}
    deadline = t0 + task.get("deadline_s", 1e9)

    def cnt(k, n=1):
        res["counters"][k] = res["counters"].get(k, 0) + n

    def fail(kind, detail, wit):
        c = res["fail_counts"].get(kind, 0)
        res["fail_counts"][kind] = c + 1
        if c < 4:
            res["fails"].append(dict(wit, prop="C13", kind=kind, detail=detail, mode=MODE))

    for it in range(task.get("count", 0)):
        if time.time() > deadline:
            res["truncated"] = True
            break
        ti = rnd.random() < 0.25 and not task.get("no_translate")
        g = dict(task.get("gen") or {})
        g.setdefault("gcc_zero_cap", False)
        g.setdefault("circuit", 0.1)
        if ti:
            g["types"] = rewrites.TI_TYPES
            g["circuit"] = 0.0
        model, tags = gen.gen_model(rnd, g)
        if g.get("source") == "large_constraints_small_search":
            from framework.props import bigrun

            big, plant = bigrun.gen_big(rnd, {"max_vars": g.get("max_vars", 16)})
            model = bigrun.restrict(big, plant, rnd, rnd.randint(2, 5))
            if it % 4 == 1:
                model, plant = bigrun.pad_model(model, plant, rnd, rnd.randint(250, 270))
            cnt("large_models")
        if O.model_points(model) > task.get("max_points", 20000):
            continue
        cfg = gen.gen_config(rnd, model)
        progress.mark({"model": model, "cfg": cfg})
        base = _enum(model, cfg)
        if base.error:
            fail("original_run_failed:" + base.error, str(base.error_detail), {"model": model, "cfg": cfg})
            continue
        s0 = collections.Counter(base.solutions)
        nv = len(model["idx"])
        ovar = rnd.randrange(nv)
        odir = rnd.choice(["min", "max"])
        o0 = modelrun.run_opt(model, cfg, ovar, odir, {"budget": {}} if INTERP else None)
        names = list(REWRITES) + (["translate"] if ti else [])
        for name in names:
            m2, back = _apply(name, model, rnd)
            c2 = _cfg_for(name, cfg, m2)
            progress.mark({"model": model, "cfg": cfg, "rewrite": name, "rewritten": m2})
            out = _enum(m2, c2)
            res["evals"] += 1
            cnt("rewrite." + name)
            h = case_hash([model, cfg, name, m2])
            res["hashes"].append(h)
            if sum(s0.values()) >= 1 and base.stats and base.stats[10] >= 1:
                res["nontrivial"].append(h)
            wit = {"model": model, "cfg": cfg, "rewrite": name, "rewritten": m2}
            if out.error:
                fail("rewritten_run_failed:" + out.error, "%s: %s" % (name, out.error_detail), wit)
                continue
            s2 = collections.Counter(back(s) for s in out.solutions)
            if s2 != s0:
                fail("solution_set_changes_under_" + name,
                     "original has %d solutions, rewritten %d; only in original %r, only in rewritten %r" % (
                         sum(s0.values()), sum(s2.values()), [list(s) for s in s0 if s0[s] > s2.get(s, 0)][:3],
                         [list(s) for s in s2 if s2[s] > s0.get(s, 0)][:3]), wit)
            # optimum
            if o0.error is None:
                if name == "permute_variables":
                    # find the new index of ovar: back maps rewritten -> original, so probe with an identity vector
                    probe = back(tuple(range(len(m2["idx"]))))
                    ov2 = probe[ovar]
                else:
                    ov2 = ovar
                o2 = modelrun.run_opt(m2, c2, ov2, odir, {"budget": {}} if INTERP else None)
                res["evals"] += 1
                cnt("optima_compared")
                if o2.error:
                    fail("rewritten_optimisation_failed:" + o2.error, str(o2.error_detail), wit)
                else:
                    v0 = None if o0.result is None else o0.result[ovar]
                    v2 = None if o2.result is None else back(o2.result)[ovar]
                    if v0 != v2:
                        fail("optimum_changes_under_" + name, "%s of variable %d: original %r, rewritten %r" % (
                            odir, ovar, v0, v2), dict(wit, objective=ovar, direction=odir))
        if len(res["samples"]) < 3 and sum(s0.values()) >= 2 and it % 7 == 0:
            res["samples"].append({"model": model, "cfg": cfg, "solutions": sum(s0.values()), "rewrites": names})
    res["wall"] = time.time() - t0
    return res


def shipped_cases(tier):
    q = tier == "quick"
    from nucs.examples.bibd.bibd_problem import BIBDProblem
    from nucs.examples.golomb.golomb_problem import GolombProblem
    from nucs.examples.magic_sequence.magic_sequence_problem import MagicSequenceProblem
    from nucs.examples.quasigroup.quasigroup_problem import Quasigroup5Problem
    from nucs.examples.queens.queens_problem import QueensProblem
    from nucs.examples.schur_lemma.schur_lemma_problem import SchurLemmaProblem

    cases = []
    for n in ([8, 9] if q else [8, 9, 10, 11]):
        cases.append(("queens-%d" % n, lambda n=n: QueensProblem(n), "enum", None))
    for n in ([8, 12, 20] if q else [8, 10, 12, 16, 20, 30]):
        cases.append(("magic_sequence-%d" % n, lambda n=n: MagicSequenceProblem(n), "enum", None))
    for k in ([5, 6] if q else [5, 6, 7]):
        cases.append(("golomb-%d" % k, lambda k=k: GolombProblem(k), "min", lambda p: p.length_idx))
    cases.append(("bibd-6-10-5-3-2", lambda: BIBDProblem(6, 10, 5, 3, 2), "enum", None))
    cases.append(("bibd-7-7-3-3-1", lambda: BIBDProblem(7, 7, 3, 3, 1), "enum", None))
    for n in ([7] if q else [7, 8]):
        cases.append(("qg5-%d" % n, lambda n=n: Quasigroup5Problem(n), "enum", None))
    for n in ([8, 10, 13] if q else [8, 9, 10, 11, 12, 13]):
        cases.append(("schur-%d" % n, lambda n=n: SchurLemmaProblem(n), "enum", None))
    return cases


def run_meta_shipped(task):
    """Shipped models at sizes beyond brute force: original formulation vs each rewrite, compiled mode."""
    from framework import nucsmap as M

    t0 = time.time()
    rnd = random.Random(task["seed"])
    res = {"evals": 0, "fails": [], "fail_counts": {}, "hashes": [], "nontrivial": [], "samples": [], "counters": {},
           "mode": MODE}
    cases = shipped_cases(task["tier"])
    mine = [c for i, c in enumerate(cases) if i % task["nchunks"] == task["chunk"]]
    deadline = t0 + task.get("deadline_s", 1e9)

    def cnt(k, n=1):
        res["counters"][k] = res["counters"].get(k, 0) + n

    def fail(kind, detail, wit):
        c = res["fail_counts"].get(kind, 0)
        res["fail_counts"][kind] = c + 1
        if c < 4:
            res["fails"].append(dict(wit, prop="C13", kind=kind, detail=detail, mode=MODE))

    for name, make, kind, objf in mine:
        if time.time() > deadline:
            res["truncated"] = True
            break
        p = make()
        model = rewrites.model_from_problem(p, M.NAME_OF)
        cfgs = [{"calg": "bc", "vh": "first", "dh": "min"}, {"calg": "bc", "vh": "smallest", "dh": "max"}]
        if name.startswith(("queens-8", "schur-8", "golomb-5", "bibd-6")):
            cfgs.append({"calg": "shaving", "vh": "first", "dh": "min"})
        obj = objf(p) if objf else None
        for cfg in cfgs:
            progress.mark({"shipped": name, "cfg": cfg})
            if kind == "enum":
                s0 = collections.Counter(M.tup(s) for s in M.build_solver(model, cfg).solve())
            else:
                r = M.build_solver(model, cfg).minimize(obj)
                s0 = None if r is None else int(r[obj])
            names = [r for r in REWRITES if not (r == "dealias" and len(model["idx"]) == len(model["doms"]) and all(
                o == 0 for o in model["off"]))]
            for rn in names:
                m2, back = _apply(rn, model, rnd)
                progress.mark({"shipped": name, "cfg": cfg, "rewrite": rn})
                res["evals"] += 1
                cnt("shipped.rewrite." + rn)
                h = "%s|%s|%s" % (name, cfg["calg"] + cfg["vh"] + cfg["dh"], rn)
                res["hashes"].append(h)
                wit = {"shipped": name, "cfg": cfg, "rewrite": rn}
                try:
                    if kind == "enum":
                        s2 = collections.Counter(back(M.tup(s)) for s in M.build_solver(m2, cfg).solve())
                        cnt("shipped.solutions_compared", sum(s2.values()))
                        if sum(s0.values()):
                            res["nontrivial"].append(h)
                        if s2 != s0:
                            fail("solution_set_changes_under_" + rn, "%s: %d solutions originally, %d after %s" % (
                                name, sum(s0.values()), sum(s2.values()), rn), wit)
                    else:
                        if rn == "permute_variables":
                            ov2 = back(tuple(range(len(m2["idx"]))))[obj]
                        else:
                            ov2 = obj
                        r2 = M.build_solver(m2, cfg).minimize(ov2)
                        v2 = None if r2 is None else int(back(M.tup(r2))[obj])
                        res["nontrivial"].append(h)
                        cnt("shipped.optima_compared")
                        if v2 != s0:
                            fail("optimum_changes_under_" + rn, "%s: optimum %r originally, %r after %s" % (
                                name, s0, v2, rn), wit)
                except Exception as e:
                    fail("rewritten_run_raised:" + type(e).__name__, "%s %s: %s" % (name, rn, str(e)[:200]), wit)
        if len(res["samples"]) < 2:
            res["samples"].append({"shipped": name, "variables": len(model["idx"]), "shared_domains": len(model["doms"]),
                                   "constraints": len(model["props"]),
                                   "reference": (sum(s0.values()) if kind == "enum" else s0)})
    res["wall"] = time.time() - t0
    return res


def replay_meta(task):
    """Witness: model, cfg, rewrite name, rewritten model (recorded, so the rewrite itself is not regenerated)."""
    w = task["witness"]
    if "shipped" in w:
        return {"fails": [{"kind": "not_replayable", "detail": "shipped-model witnesses are deterministic: re-run ./check C13"}]}
    model, cfg, m2 = w["model"], w["cfg"], w["rewritten"]
    name = w["rewrite"]
    base = _enum(model, cfg)
    out = _enum(m2, _cfg_for(name, cfg, m2))
    fails = []
    if base.error or out.error:
        return {"fails": [{"kind": "run_failed", "detail": "%s / %s" % (base.error, out.error)}]}
    s0 = collections.Counter(base.solutions)
    nv = len(model["idx"])
    if name == "permute_variables":
        return {"fails": [], "note": "projection of a variable permutation is not recorded; compare counts only",
                "counts": [sum(s0.values()), len(out.solutions)]} if sum(s0.values()) == len(out.solutions) else {
            "fails": [{"kind": "solution_count_changes_under_permute_variables", "detail": "%d vs %d" % (
                sum(s0.values()), len(out.solutions))}]}
    if name == "translate":
        t = m2["doms"][0][0] - model["doms"][0][0]
        s2 = collections.Counter(tuple(x - t for x in s) for s in out.solutions)
    else:
        s2 = collections.Counter(tuple(s[:nv]) for s in out.solutions)
    if s2 != s0:
        fails.append({"kind": "solution_set_changes_under_" + name, "detail": "%d vs %d solutions" % (
            sum(s0.values()), sum(s2.values()))})
    return {"fails": fails}

"""C03 - minimise/maximise return a feasible optimum, or nothing exactly when infeasible."""
from framework import common
from framework.common import Job
from framework.props import _modelprop, modelfamily, mpfamily

RULE = ("random models x every kind of objective variable (own domain / alias with offset; constrained by several, one "
        "or no constraint) x both directions x configurations: result compared with O-brute's optimum (None iff "
        "infeasible); plane-A history monitor: incumbents strictly improving, each followed by reset to the initial "
        "domains and a tightening to incumbent -/+ 1 through the offset; restart budget. Multiprocessing: schedule shim "
        "(all interleavings when <= 5000) + real processes. Beyond brute force: large planted models (arity <= 12) - the "
        "optimum must be valid and at least as good as the planted assignment. distinct = distinct (model, cfg, objective, direction); "
        "non-trivial = feasible and >= 2 improving solutions or >= 1 choice")


def mp_jobs(tier, seed):
    q = tier == "quick"
    jobs = []
    for k in range(3 if q else 8):
        jobs.append(Job("framework.props.mpfamily", "run_mp_shim",
                        {"props": ["C03"], "seed": seed * 557 + k, "count": 25 if q else 250, "enum_limit": 3000,
                         "samples": 200, "deadline_s": 60 if q else 600},
                        mode="interp" if k % 2 else "jit", timeout=300 if q else 1500, tag="mpshim:%d" % k,
                        stall_s=90))
    from framework.props import bigrun

    jobs.extend(bigrun.jobs("C03", tier, seed + 2))
    jobs.append(Job("framework.props.mpfamily", "run_mp_real",
                    {"props": ["C03"], "seed": seed * 991 + 3, "count": 10 if q else 80, "deadline_s": 60 if q else 600},
                    mode="jit", timeout=300 if q else 1500, tag="mpreal", stall_s=150))
    return jobs


def main(tier, seed):
    def post(rep, extra):
        from framework.props import bigrun

        mpfamily.aggregate(rep, [j for j in extra if j.module == "framework.props.mpfamily"])
        bigrun.aggregate(rep, [j for j in extra if j.module == "framework.props.bigrun"])

    rep = _modelprop.run(
        "C03", tier, seed, RULE, do=["opt"], monitors=["budget", "opthist"], objectives_per_model=3,
        extra_jobs=mp_jobs, post=post,
        needs=[("opt.feasible", 800, "feasible optimisations"), ("opt.infeasible", 100, "infeasible optimisations"),
               ("opt.objective_unconstrained", 100, "unconstrained objectives"),
               ("opt.objective_has_offset", 100, "objectives with offset"),
               ("opthist.tightenings", 500, "history monitor"), ("mp.cases", 30, "multiprocessing cases"),
               ("big.optimisations_completed", 50, "optimisations of large planted models")],
        assumptions=["O-brute optimum over the product of the shared domains", "models <= 6000/20000 points"])
    return rep.finish()


def replay(rep_json):
    return modelfamily.replay_generic("C03", rep_json, monitors=("budget", "opthist"))

"""C13 - the solution set does not depend on how the model is written down."""
from framework import common
from framework.common import Job
from framework.report import Report

RULE = ("metamorphic monitor, no oracle: for a model M and a rewrite R in {aliases -> separate variables linked by "
        "x'-x=o, permute constraints, permute variables and shared domains, permute the arguments of order-insensitive "
        "constraints, post a constraint twice, add an always-true "
        "constraint, translate all values (translation-invariant models)}, project(solutions(R(M))) == solutions(M) "
        "as multisets and equal optimum, on the real solver. Random models (both modes) and the shipped models at "
        "sizes beyond brute force (queens 8-11 alias vs de-aliased, magic sequence 8-30, Golomb 5-7 optimum, BIBD, "
        "QG5 7-8, Schur 8-13) x BC/shaving x heuristics. distinct = distinct (model, cfg, rewrite); non-trivial = "
        ">= 1 solution and >= 1 choice")


def main(tier, seed):
    q = tier == "quick"
    rep = Report("C13", tier, seed, "exploration", RULE)
    if common.warm_cache("jit") < 0:
        rep.inconclusive.append("JIT cache warm-up failed")
    jobs = []
    for c in range(9 if q else 12):
        jobs.append(Job("framework.props.metarun", "run_meta",
                        {"seed": seed * 2003 + c, "count": 40 if q else 800, "max_points": 4000 if q else 20000,
                         "deadline_s": 70 if q else 900},
                        mode="jit" if c % 3 == 0 else "interp", timeout=300 if q else 1800, tag="meta:%d" % c,
                        stall_s=90))
    # one shared domain seen through several views inside the same constraint (the written form decides which view is
    # filtered first and which one the write-back intersects last)
    from framework.props import modelfamily

    for c in range(4 if q else 8):
        jobs.append(Job("framework.props.metarun", "run_meta",
                        {"seed": seed * 2011 + c, "count": 400 if q else 2500, "max_points": 4000,
                         "deadline_s": 60 if q else 900, "no_translate": True,
                         "gen": modelfamily.clean_gen({
                             "types": ["affine_eq", "affine_eq", "affine_eq", "affine_leq", "affine_geq", "max_eq", "min_eq",
                                       "element_liv", "element_lic", "count_eq", "exactly_eq", "lexicographic_leq",
                                       "alldifferent", "relation", "max_leq", "min_geq"] if c % 4 < 2 else
                             ["affine_eq", "affine_eq", "affine_leq", "affine_geq"],
                             "widths": [2, 3, 4, 5, 6], "max_doms": 2, "min_alias": 2, "max_alias": 4,
                             "max_props": 1 if c % 2 == 0 else 2, "circuit": 0.0, "big": False, "repeat_p": 1.0,
                             "plant": 0.5})},
                        mode="jit" if c % 2 else "interp", timeout=300 if q else 1800, tag="metaviews:%d" % c,
                        stall_s=90))
    # the same rewrites on large planted models with a small search space (long argument lists; a quarter of them behind
    # 250+ instantiated variables)
    for c in range(2 if q else 4):
        jobs.append(Job("framework.props.metarun", "run_meta",
                        {"seed": seed * 2017 + c, "count": 60 if q else 1200, "max_points": 3000,
                         "deadline_s": 60 if q else 900, "no_translate": True,
                         "gen": {"source": "large_constraints_small_search", "max_vars": 12 if c % 2 == 0 else 20}},
                        mode="jit" if c % 2 == 0 else "interp", timeout=300 if q else 1800, tag="metalarge:%d" % c,
                        stall_s=120))
    n = 7
    for c in range(n):
        jobs.append(Job("framework.props.metarun", "run_meta_shipped",
                        {"seed": seed * 17 + c, "tier": tier, "chunk": c, "nchunks": n, "deadline_s": 150 if q else 2400},
                        mode="jit", timeout=400 if q else 3600, tag="metashipped:%d" % c, stall_s=300 if q else 1500))
    common.run_jobs(jobs)
    distinct = set()
    for j in jobs:
        if j.status != "ok":
            rep.job_problem(j)
            if not j.result:
                continue
        r = j.result
        rep.evaluations += r["evals"]
        distinct.update(r["nontrivial"])
        for k, v in r["counters"].items():
            rep.count(k, v)
        for s in r["samples"][:1]:
            rep.sample(s)
        for f in r["fails"]:
            rep.violation(f)
        for k, v in r["fail_counts"].items():
            rep.count("failures." + k, v)
        rep.add_class("%s:%s" % (j.func, r["mode"]), r["evals"])
        if r.get("truncated"):
            rep.count("jobs_truncated_by_deadline")
    rep.distinct = distinct
    for rw in ("dealias", "permute_constraints", "permute_variables", "duplicate_constraint", "add_true_constraint",
               "translate", "permute_arguments"):
        rep.need("rewrite." + rw, 30, "rewrite " + rw)
    rep.need("shipped.solutions_compared", 2000, "shipped models")
    rep.need("optima_compared", 300, "optimum relation")
    rep.assumptions = ["cost-based heuristics are replaced by generic ones in rewritten models (cost tables are indexed "
                       "by shared-domain index, which the rewrites renumber)"]
    return rep.finish()


def replay(rep_json):
    from framework.props import _modelprop

    return _modelprop.replay_job("C13", rep_json, "framework.props.metarun", "replay_meta")

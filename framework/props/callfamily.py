"""Driver shared by C05 / C06 / C07(call level) / C14: fan out direct-call workloads, aggregate into a Report."""
from framework import common
from framework import oracles as O
from framework.common import Job

KNOWN_AVOID = {}


def build_jobs(prop, tier, seed, names, include_points=False, zero_cap_stream=True):
    q = tier == "quick"
    jobs = []
    props = [prop]
    # exhaustive small scope, interpreted (line budget active), one job per type (split by arity for the heavy ones)
    for name in names:
        from framework.props.calls import scopes

        sc = scopes(tier)[name]
        heavy = name.startswith("affine") or name in ("gcc", "relation", "element_liv", "lexicographic_leq")
        if heavy and len(sc["arity"]) > 1:
            for a in sc["arity"]:
                jobs.append(Job("framework.props.calls", "run_calls",
                                {"props": props, "names": [name], "kind": "exhaustive", "tier": tier, "arity": [a],
                                 "deadline_s": 150 if q else 900},
                                mode="interp", timeout=400 if q else 1500, tag="exh:%s:%d" % (name, a)))
        else:
            jobs.append(Job("framework.props.calls", "run_calls",
                            {"props": props, "names": [name], "kind": "exhaustive", "tier": tier,
                             "deadline_s": 150 if q else 900},
                            mode="interp", timeout=400 if q else 1500, tag="exh:%s" % name))
    if include_points:
        jobs.append(Job("framework.props.calls", "run_calls",
                        {"props": props, "names": list(names), "kind": "points", "tier": tier},
                        mode="interp", timeout=400 if q else 1500, tag="points"))
    # random boxes: compiled and interpreted, beyond the small scope
    per = 1500 if q else 25000
    chunks = 4 if q else 12
    for mode in ("jit", "interp"):
        for c in range(chunks):
            jobs.append(Job("framework.props.calls", "run_calls",
                            {"props": props, "names": list(names), "kind": "random", "tier": tier,
                             "seed": seed * 1000003 + c * 7919 + (1 if mode == "jit" else 2),
                             "count": per * len(names) // chunks // (1 if mode == "jit" else 2),
                             "opts": {"max_arity": 5 if c % 2 == 0 else 6, "width": 4 if c % 3 else 3,
                                      "big": c % 4 == 3, "allow_all_zero": True},
                             "points": 0.15 if include_points else 0.03,
                             "deadline_s": 150 if q else 900},
                            mode=mode, timeout=400 if q else 1500, tag="rnd:%s:%d" % (mode, c),
                            stall_s=60 if mode == "jit" else None))
    # deep-arity stream: types whose behaviour depends on longer structure, on narrow overlapping domains
    deep = [n for n in ("lexicographic_leq", "alldifferent", "gcc", "element_liv", "element_lic", "relation",
                        "no_sub_cycle", "scc", "count_eq", "exactly_eq", "max_eq", "min_eq") if n in names]
    if deep:
        for c in range(2 if q else 6):
            jobs.append(Job("framework.props.calls", "run_calls",
                            {"props": props, "names": deep, "kind": "random", "tier": tier,
                             "seed": seed * 50021 + c * 31 + 7, "count": (700 if q else 8000) * len(deep),
                             "opts": {"max_arity": 8 if c % 2 else 6, "min_arity": 5 if c % 2 else 2, "width": 2, "base": 2,
                                      "allow_all_zero": True},
                             "points": 0.05, "deadline_s": 100 if q else 900},
                            mode="jit" if c % 2 else "interp", timeout=400 if q else 1500, tag="deep:%d" % c))
    # wide stream: arity up to 12 on domains up to 10 values - far beyond O-hull; judged by the sampled oracles (a satisfying
    # tuple outside the output, a violating tuple inside an 'entailed' output, a satisfying tuple under 'inconsistent'), by
    # C06 on points and by the second call
    wide = [n for n in names if n not in ("no_sub_cycle", "scc", "dummy", "element_iv")]
    if wide:
        for c in range(2 if q else 6):
            jobs.append(Job("framework.props.calls", "run_calls",
                            {"props": props, "names": wide, "kind": "random", "tier": tier,
                             "seed": seed * 60013 + c * 37 + 11, "count": (500 if q else 6000) * len(wide),
                             "opts": {"max_arity": 12 if c % 2 else 9, "min_arity": 7, "width": 9 if c % 2 else 6, "base": 6,
                                      "allow_all_zero": True},
                             "points": 0.08, "deadline_s": 100 if q else 900, "hull_limit": 3000},
                            mode="jit" if c % 2 else "interp", timeout=400 if q else 1500, tag="wide:%d" % c,
                            stall_s=60 if c % 2 else None))
    # almost-ground stream: arity 7-14 with all but 1-3 variables instantiated - the enumerating oracles stay exact (hull,
    # "every tuple of an entailed box satisfies") while the propagators walk long argument lists
    ag = [n for n in names if n not in ("dummy", "element_iv")]
    if ag:
        for c in range(2 if q else 6):
            jobs.append(Job("framework.props.calls", "run_calls",
                            {"props": props, "names": ag, "kind": "random", "tier": tier,
                             "seed": seed * 60017 + c * 41 + 13, "count": (500 if q else 6000) * len(ag),
                             "opts": {"max_arity": 14 if c % 2 else 10, "min_arity": 7, "width": 8 if c % 2 else 4,
                                      "base": 4, "allow_all_zero": True, "almost_ground": 3 if c % 2 else 2},
                             "deadline_s": 100 if q else 900},
                            mode="jit" if c % 2 else "interp", timeout=400 if q else 1500, tag="almostground:%d" % c,
                            stall_s=60 if c % 2 else None))
    # stretched stream: the small shapes mapped through a strictly increasing function with gaps around 2^8, 2^16, 2^24, 2^28
    # (domains up to ~10^9 wide, values up to +-2^30): narrow scratch arrays, 16-bit differences, int32 sums. Judged exactly by
    # O-support's width-independent hull (breakpoint probing / bisection).
    from framework import gen as _gen

    st = [n for n in names if n in _gen.STRETCHABLE]
    if st:
        for c in range(2 if q else 8):
            jobs.append(Job("framework.props.calls", "run_calls",
                            {"props": props, "names": st, "kind": "random", "tier": tier,
                             "seed": seed * 60029 + c * 43 + 17, "count": (400 if q else 5000) * len(st),
                             "opts": {"max_arity": 7 if c % 2 else 4, "width": 3 if c % 2 else 5, "base": 3,
                                      "allow_all_zero": True, "stretch": True},
                             "points": 0.05, "deadline_s": 100 if q else 900},
                            mode="jit" if c % 2 else "interp", timeout=400 if q else 1500, tag="stretch:%d" % c,
                            stall_s=60 if c % 2 else None))
    if "lexicographic_leq" in names:
        # the lexicographic automaton only shows its later states on vectors of length >= 3 with non-boolean domains
        for c in range(2 if q else 4):
            jobs.append(Job("framework.props.calls", "run_calls",
                            {"props": props, "names": ["lexicographic_leq"], "kind": "random", "tier": tier,
                             "seed": seed * 70001 + c * 13 + 5, "count": 6000 if q else 60000,
                             "opts": {"max_arity": 6 if c % 2 == 0 else 8, "width": 2, "base": 1},
                             "points": 0.02, "deadline_s": 100 if q else 900},
                            mode="jit" if c % 2 == 0 else "interp", timeout=400 if q else 1500, tag="lex:%d" % c))
        # ... and its last states only with four or more pairs (exact hull through O-support)
        for c in range(2 if q else 4):
            jobs.append(Job("framework.props.calls", "run_calls",
                            {"props": props, "names": ["lexicographic_leq"], "kind": "random", "tier": tier,
                             "seed": seed * 70003 + c * 17 + 9, "count": 8000 if q else 80000,
                             "opts": {"min_arity": 8, "max_arity": 8 if c % 2 == 0 else 12, "width": 2 if c % 2 == 0 else 1,
                                      "base": 1},
                             "points": 0.02, "deadline_s": 100 if q else 900, "hull_limit": 2000},
                            mode="jit" if c % 2 == 0 else "interp", timeout=400 if q else 1500, tag="lexlong:%d" % c))
    if zero_cap_stream and "gcc" in names:
        # targeted stream for the gcc zero-capacity mechanism (interpreted only: the line budget cuts its endless loop)
        jobs.append(Job("framework.props.calls", "run_calls",
                        {"props": props, "names": ["gcc"], "kind": "exhaustive", "tier": tier,
                         "opts": {"gcc_zero_cap": True, "arity": [1, 2] if q else [1, 2, 3]},
                         "deadline_s": 150 if q else 900},
                        mode="interp", timeout=400 if q else 1500, tag="exh:gcc:zerocap"))
    return jobs


def aggregate(rep, jobs, names):
    hashes = set()
    nontrivial = set()
    truncated = 0
    for j in jobs:
        if j.status != "ok":
            if j.status == "timeout" and j.stalled_case and "call" in j.stalled_case:
                # watchdog protocol: replay the call the child stalled on under the line budget (plane A)
                rj = Job("framework.props.calls", "replay_call", {"prop": rep.prop, "call": j.stalled_case["call"]},
                         mode="interp", timeout=300)
                common.run_jobs([rj])
                rep.count("stalled_jobs")
                if rj.status == "ok" and rj.result["fails"]:
                    for f in rj.result["fails"]:
                        rep.violation(dict(f, where="replay of the call a %s child stalled on" % j.mode))
                elif rj.status == "ok":
                    rep.inconclusive.append("a %s child stalled on call %r which completes under interpretation" % (
                        j.mode, j.stalled_case["call"]))
                else:
                    rep.job_problem(j)
            else:
                rep.job_problem(j)
            continue
        r = j.result
        rep.evaluations += r["evals"]
        hashes.update(r["hashes"])
        nontrivial.update(r["nontrivial"])
        rep.merge_counts("calls_by_type.", r["per_type"])
        rep.merge_counts("status.", r["status_pairs"])
        rep.count("calls_" + r["mode"], r["evals"])
        rep.count("hull_decided", r["hull_decided"])
        rep.count("entailment_answers_checked", r["entail_checked"])
        rep.count("point_inputs", r["points_in"])
        rep.count("calls_collapsing_box_to_point", r["collapsed"])
        rep.maxc("max_lines_in_one_call", r["max_lines"])
        rep.count("calls_judged_by_sampling", r.get("sampled_calls", 0))
        rep.count("sampled_tuples", r.get("sampled_tuples", 0))
        rep.count("sampled_satisfying_tuples", r.get("sampled_satisfying", 0))
        rep.count("entailment_answers_sampled", r.get("entail_sampled", 0))
        rep.maxc("max_arity_called", r.get("max_arity", 0))
        rep.count("hull_decided_by_support_oracle", r.get("hull_by_support", 0))
        rep.count("hull_oracles_cross_checked", r.get("cross_checked", 0))
        rep.count("hull_decided_on_wide_domains", r.get("hull_wide", 0))
        rep.maxc("max_domain_width_called", r.get("max_width", 0))
        if r.get("oracle_mismatch"):
            rep.inconclusive.append("the enumerating and the support hull oracles disagree on %d call(s), e.g. %r" % (
                r["oracle_mismatch"], r.get("mismatch_samples")))
        if r.get("truncated"):
            truncated += 1
        for s in r["samples"]:
            rep.sample(s)
        for f in r["fails"]:
            rep.violation(f)
        for k, v in r["fail_counts"].items():
            rep.count("failures." + k, v)
        kind = r["task"]["kind"]
        rep.add_class(kind + ":" + r["mode"], r["evals"])
    rep.distinct = nontrivial
    rep.counters["distinct_calls"] = len(hashes)
    rep.counters["jobs_truncated_by_deadline"] = truncated
    rep.counters["distinct_type_status_pairs"] = len([k for k in rep.counters if k.startswith("status.")])
    missing = [n for n in names if rep.counters.get("calls_by_type." + n, 0) == 0]
    if missing:
        rep.inconclusive.append("no call executed for types %r" % (missing,))


def run(prop, tier, seed, names, level, rule, include_points=False, design_ref=None, minimum_hull=1000,
        extra_jobs=None, extra_aggregate=None):
    from framework.report import Report

    rep = Report(prop, tier, seed, level, rule)
    w = common.warm_cache("jit")
    if w < 0:
        rep.inconclusive.append("JIT cache warm-up failed")
    jobs = build_jobs(prop, tier, seed, names, include_points=include_points)
    # the same oracles on every propagator execution of real searches (boxes that searches actually reach, offsets applied)
    from framework.props import modelfamily

    q = tier == "quick"
    ejobs = modelfamily.build_jobs(prop, tier, seed + 17, do=["enum"], monitors=["budget", "calls"], jit_share=0.0,
                                   njobs=4 if q else 8, per_job=30 if q else 500, configs_per_model=2,
                                   monitor_opts={"calls": {"hull_limit": 3000}})
    common.run_jobs(jobs + ejobs + list(extra_jobs or []))
    aggregate(rep, jobs, names)
    if extra_jobs:
        extra_aggregate(rep, extra_jobs)
    d1 = rep.distinct
    ev = rep.evaluations
    rep.distinct = set()
    modelfamily.aggregate(rep, ejobs)
    rep.evaluations = ev + rep.counters.get("calls.distinct_judged", 0)
    rep.distinct = set(d1)
    rep.counters["in_engine_executions_judged"] = rep.counters.get("calls.distinct_judged", 0)
    rep.need("hull_decided", minimum_hull, "O-hull oracle")
    rep.assumptions = [
        "O-sem predicates (framework/oracles.py) are a faithful reading of docs/source/reference.rst",
        "parameter contract of DESIGN.md section 4",
        "exhaustive only inside the small scope listed in classes; random beyond",
    ]
    return rep


def replay_generic(prop, rep_json):
    w = rep_json["witness"]
    if w.get("stream") == "big":
        from framework.props import modelfamily

        return modelfamily.replay_generic(prop, rep_json)
    mode = w.get("mode", "interp")
    j = Job("framework.props.calls", "replay_call", {"prop": prop, "call": w["call"]}, mode=mode, timeout=300)
    common.run_jobs([j])
    if j.status != "ok":
        print("replay could not run: %s\n%s" % (j.status, j.stderr[-2000:]))
        return 2
    fails = j.result["fails"]
    if fails:
        for f in fails:
            print("VIOLATION property=%s replay=%s" % (prop, "<replayed>"))
            print("  %s: %s" % (f["kind"], f["detail"]))
        return 1
    print("replay: property %s holds on the recorded call" % prop)
    return 0

"""C02 - enumeration yields each solution exactly once, whatever the search strategy."""
from framework import common
from framework.props import modelfamily
from framework.report import Report

RULE = ("random in-contract models (1-5 shared domains, aliases with offsets, 1-5 constraints of all shipped types, "
        "repeated variables) x random configurations (BC/shaving x 4 variable x 5 value heuristics) x constraint "
        "permutations, exhaustive enumeration on the real solver in both modes; Counter(solutions) must equal O-brute. "
        "Beyond brute force: large models built around a planted assignment (8-35 variables, arity <= 12), partially "
        "fixed to it - a completed enumeration must contain the planted assignment, without duplicates. "
        "distinct = distinct (model, cfg); non-trivial = the search made >= 1 choice")


def main(tier, seed):
    rep = Report("C02", tier, seed, "exploration", RULE)
    if common.warm_cache("jit") < 0:
        rep.inconclusive.append("JIT cache warm-up failed")
    jobs = modelfamily.build_jobs("C02", tier, seed, do=["enum"], monitors=["budget"], orders=1)
    from framework.props import bigrun

    big = bigrun.jobs("C02", tier, seed + 1)
    common.run_jobs(jobs + big)
    modelfamily.aggregate(rep, jobs)
    bigrun.aggregate(rep, big)
    rep.need("big.enumerations_completed", 100, "completed enumerations of large planted models")
    rep.need("runs_interp", 500, "interpreted runs")
    rep.need("runs_jit", 300, "compiled runs")
    rep.need("engine.choices", 1000, "branching")
    rep.assumptions = ["O-brute enumerates the product of the shared domains with O-sem (independent of nucs)",
                       "models limited to <= 6000/20000 points (quick/thorough)"]
    return rep.finish()


def replay(rep_json):
    return modelfamily.replay_generic("C02", rep_json)

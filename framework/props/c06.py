"""C06 - a fully instantiated tuple that violates a constraint is always rejected."""
from framework import oracles as O
from framework.props import callfamily

RULE = ("every instantiated tuple of a small universe per type and parameter grid (exhaustive), plus every call of the "
        "C05 workloads that leaves all variables instantiated: status must be inconsistency iff O-sem is false "
        "(circuit constraints: on permutations only). Through the engine, beyond the small universe: large planted models "
        "(arity <= 12) with every variable fixed - the satisfying point is delivered, a violating neighbour is not. distinct = distinct (type, box, params); non-trivial = point "
        "input, or a call that changed a bound / answered inconsistency or entailment")


def main(tier, seed):
    from framework.props import bigrun

    rep = callfamily.run("C06", tier, seed, O.TYPES, "exploration", RULE, include_points=True,
                         extra_jobs=bigrun.jobs("C06", tier, seed + 3), extra_aggregate=bigrun.aggregate)
    rep.need("big.ground_violating_points", 100, "ground violating points of large models through the engine")
    rep.need("point_inputs", 2000, "ground-tuple monitor")
    rep.need("calls_collapsing_box_to_point", 50, "collapse monitor")
    return rep.finish()


def replay(rep_json):
    return callfamily.replay_generic("C06", rep_json)

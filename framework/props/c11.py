"""C11 - the multiprocessing solver equals the sequential solver for every interleaving."""
from framework import common
from framework.common import Job
from framework.props import mpfamily
from framework.report import Report

RULE = ("schedule shim: the real worker methods produce the message streams of each sub-problem (real Problem.split), "
        "the real reducer is run against EVERY interleaving of those streams when their number is <= 5000 (else the "
        "adversarial corners + 400 seeded ones), each under two legal statistics payloads (snapshot at put / final "
        "array); verdicts: multiset == sequential solver's, optimum value equal, None iff infeasible, queue drained "
        "when the call returns, aggregated statistics == sum (max for depth) of the workers' final statistics. Real "
        "forked workers with injected 0-20 ms per-message delays confirm the shim on a subset. Histories of several calls "
        "(enumerate twice, optimise then enumerate, an abandoned enumeration then a full one) on ONE solver object must "
        "each answer like a first call. distinct = distinct "
        "(model, split, cfg, operation); non-trivial = >= 2 workers and >= 3 messages")


def main(tier, seed):
    q = tier == "quick"
    rep = Report("C11", tier, seed, "exploration", RULE)
    if common.warm_cache("jit") < 0:
        rep.inconclusive.append("JIT cache warm-up failed")
    jobs = []
    for k in range(10 if q else 14):
        jobs.append(Job("framework.props.mpfamily", "run_mp_shim",
                        {"props": ["C11"], "seed": seed * 4099 + k, "count": 14 if q else 300, "enum_limit": 5000,
                         "samples": 400, "deadline_s": 70 if q else 900},
                        mode="jit" if k % 3 == 0 else "interp", timeout=300 if q else 1800, tag="shim:%d" % k,
                        stall_s=120))
    for k in range(3 if q else 6):
        jobs.append(Job("framework.props.mpfamily", "run_mp_real",
                        {"props": ["C11"], "seed": seed * 53 + k, "count": 10 if q else 120,
                         "deadline_s": 70 if q else 900},
                        mode="jit" if k % 2 == 0 else "interp", timeout=300 if q else 1800, tag="real:%d" % k,
                        stall_s=150))
    for k in range(2 if q else 4):
        jobs.append(Job("framework.props.mpfamily", "run_mp_real",
                        {"props": ["C11"], "seed": seed * 59 + k, "count": 3 if q else 8, "slow_worker": 3.5,
                         "slow_cases": 3 if q else 8, "gen": {"max_doms": 3}, "deadline_s": 120 if q else 600},
                        mode="interp" if k % 2 else "jit", timeout=400 if q else 1800, tag="real-slow:%d" % k,
                        stall_s=200))
    common.run_jobs(jobs)
    mpfamily.aggregate(rep, jobs)
    rep.exhaustive = False
    rep.extra["exhaustive_scope"] = ("all interleavings enumerated for %d of %d shim cases (those with <= 5000 "
                                     "interleavings)" % (rep.counters.get("mp.exhaustive_cases", 0),
                                                         rep.counters.get("mp.exhaustive_cases", 0) +
                                                         rep.counters.get("mp.sampled_cases", 0)))
    rep.need("mp.interleavings_run", 3000, "interleavings")
    rep.need("mp.exhaustive_cases", 30, "exhaustively enumerated cases")
    rep.need("mp.cases_with_a_worker_without_solution", 5, "workers without solution")
    rep.need("mp.runs_jit", 100, "compiled runs")
    rep.need("mp.reuse_calls_judged", 200, "calls on an already used solver object")
    rep.need("mp.reuse_calls_real_processes", 3, "second calls on one solver object with real processes")
    rep.need("mp.cases_with_a_silent_worker", 4, "a worker silent for several polling periods")
    rep.assumptions = ["per-producer FIFO is the only ordering multiprocessing.Queue guarantees",
                       "sequential solver as reference (tied to brute force by C01-C03)"]
    return rep.finish()


def replay(rep_json):
    w = rep_json["witness"]
    j = Job("framework.props.mpfamily", "replay_mp", {"witness": w, "prop": "C11"}, mode=w.get("mode", "interp"),
            timeout=300)
    common.run_jobs([j])
    if j.status != "ok":
        print("replay could not run: %s %s" % (j.status, j.stderr[-1500:]))
        return 2
    for f in j.result["fails"]:
        print("VIOLATION property=C11 replay=<replayed>\n  %s: %s" % (f["kind"], f["detail"]))
    if not j.result["fails"]:
        print("replay: property C11 holds on the recorded case")
    return 1 if j.result["fails"] else 0

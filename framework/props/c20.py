"""C20 - shipped models yield only valid combinatorial objects, with the known counts."""
from framework import common
from framework.common import Job
from framework.report import Report

RULE = ("every shipped model (queens, latin square x2, quasigroup QG5, magic square, magic sequence, Golomb ruler, "
        "BIBD, Schur, sports tournament, knapsack, circuit, TSP prefixes of GR17/21/24, sudoku, alpha, donald) over a "
        "size sweep x the configuration of its __main__ plus generic ones (BC/shaving, heuristics, Golomb's custom "
        "algorithm) in compiled mode: each solution through an independent definition-level validator; counts against "
        "OEIS / literature / own enumeration; optima against Held-Karp, subset DP, own ruler search; symmetry-breaking "
        "variants: valid, satisfiability preserved, subset of the plain model's solutions; all configurations agree; "
        "multiprocessing split agrees. distinct = distinct (instance, configuration); non-trivial = produced >= 1 "
        "object")


def main(tier, seed):
    q = tier == "quick"
    rep = Report("C20", tier, seed, "exploration", RULE)
    if common.warm_cache("jit") < 0:
        rep.inconclusive.append("JIT cache warm-up failed")
    n = 16
    jobs = [Job("framework.props.shippedrun", "run_shipped", {"tier": tier, "chunk": c, "nchunks": n,
                                                              "deadline_s": 600 if q else 2400},
                mode="jit", timeout=1200 if q else 3600, tag="shipped:%d" % c, stall_s=600 if q else 1500)
            for c in range(n)]
    common.run_jobs(jobs)
    distinct = set()
    fams = {}
    for j in jobs:
        if j.status != "ok":
            sc = j.stalled_case or {}
            if j.status == "timeout" and sc.get("instance") is not None and sc.get("config_index") is not None:
                rj = Job("framework.props.shippedrun", "replay_stalled",
                         {"instance": sc["instance"], "config_index": sc["config_index"]}, mode="interp", timeout=900)
                common.run_jobs([rj])
                rep.count("stalled_jobs")
                grew = [f for f in (rj.result or {}).get("fails", []) if f["kind"] in (
                    "domain_grew_during_pass", "empty_domain_after_consistent_pass")] if rj.status == "ok" else []
                if grew:
                    rep.violation({"prop": "C20", "kind": "search_does_not_terminate:" + grew[0]["kind"],
                                   "instance": sc["instance"], "config_index": sc["config_index"], "mode": "interp",
                                   "detail": "%s configuration #%d did not return in compiled mode; replayed under "
                                             "interpretation: %s; the run ended with: %s" % (
                                                 sc["instance"], sc["config_index"], grew[0]["detail"],
                                                 rj.result["outcome"])})
                else:
                    rep.job_problem(j)
                if not j.result:
                    continue
            else:
                rep.job_problem(j)
                continue
        r = j.result
        rep.evaluations += r["evals"]
        distinct.update(r["nontrivial"])
        for k, v in r["counters"].items():
            rep.count(k, v)
        for k, v in r["families"].items():
            fams[k] = fams.get(k, 0) + v
        for s in r["samples"][:1]:
            rep.sample(s)
        for f in r["fails"]:
            rep.violation(f)
        for k, v in r["fail_counts"].items():
            rep.count("failures." + k, v)
        rep.counters["catalogue_size"] = r["catalogue_size"]
        if r.get("truncated"):
            rep.count("jobs_truncated_by_deadline")
    rep.distinct = distinct
    rep.classes = {"instances_per_family": fams}
    for fam in ("queens", "latin_square", "quasigroup", "magic_square", "magic_sequence", "golomb", "bibd", "schur",
                "sports_tournament", "knapsack", "circuit", "tsp", "sudoku", "alpha", "donald"):
        if not fams.get(fam):
            rep.inconclusive.append("no instance of family %s was run" % fam)
    rep.need("solutions_validated", 2000, "validators")
    rep.need("counts_compared", 40, "reference counts")
    rep.need("optima_compared", 20, "reference optima")
    rep.need("symmetry_pairs_compared", 10, "symmetry-breaking relations")
    if rep.counters.get("jobs_truncated_by_deadline"):
        rep.inconclusive.append("a job hit its deadline before finishing its part of the catalogue")
    rep.assumptions = ["validators know each model's variable layout (its interface) and re-derive validity from the "
                       "definition", "literature constants: OEIS A000170, A002860, Golomb lengths, QG5 idempotent "
                       "counts (7:3, 8:1, 9:0, 10:0 with the model's symmetry breaking), 880 magic squares of order 4"]
    return rep.finish()


def replay(rep_json):
    from framework.props import _modelprop

    return _modelprop.replay_job("C20", rep_json, "framework.props.shippedrun", "replay_shipped", mode="jit")

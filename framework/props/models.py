"""Model-level workloads: random models x configurations on the real solver, judged against O-brute.
Serves C01, C02, C03, C04 (and carries the in-engine monitors of C05..C10, C17 when asked).
"""
import collections
import os
import random
import time

from framework import gen, minimize, modelrun, progress
from framework import oracles as O
from framework.common import case_hash

MODE = os.environ.get("NUCS_VERIF_MODE", "interp")
INTERP = MODE == "interp"


# ---------------------------------------------------------------------------------------------- judging one run
def judge_enum(model, cfg, expected, out):
    """Failures of C01/C02/C04/C16 visible at the API boundary of one exhaustive enumeration."""
    fails = []
    for s in out.solutions:
        why = O.check_solution(model, list(s))
        if why is not None:
            fails.append({"prop": "C01", "kind": "invalid_solution", "detail": "yielded %r: %s" % (list(s), why)})
            break
    if out.error == "budget":
        fails.append({"prop": "C04", "kind": "step_budget", "detail": out.error_detail})
        fails.append({"prop": "C02", "kind": "enumeration_did_not_stop", "detail": out.error_detail})
    elif out.error == "too_many_solutions":
        fails.append({"prop": "C02", "kind": "extra", "detail": "more than %d solutions yielded, %d expected" % (
            len(out.solutions), len(expected))})
        fails.append({"prop": "C04", "kind": "unbounded_enumeration", "detail": "solutions keep coming"})
    elif out.error is not None and out.error.startswith("exception"):
        fails.append({"prop": "C16" if "IndexError" in out.error else "C04", "kind": out.error,
                      "detail": out.error_detail})
        fails.append({"prop": "C02", "kind": "enumeration_raised:" + out.error, "detail": out.error_detail})
    elif out.error is None:
        got = collections.Counter(out.solutions)
        exp = collections.Counter(expected)
        if got != exp:
            extra = [list(s) for s in got if s not in exp]
            missing = [list(s) for s in exp if s not in got]
            dup = [list(s) for s, c in got.items() if c > 1]
            kind = "+".join(k for k, v in (("extra", extra), ("missing", missing), ("duplicate", dup)) if v)
            fails.append({"prop": "C02", "kind": kind or "count_mismatch",
                          "detail": "expected %d solutions, got %d; extra=%r missing=%r duplicated=%r" % (
                              len(expected), len(out.solutions), extra[:3], missing[:3], dup[:3])})
    for f in out.monitor_fails:
        fails.append(f)
    return fails


def judge_opt(model, cfg, var, direction, expected, out):
    fails = []
    if out.error == "budget":
        fails.append({"prop": "C04", "kind": "step_budget", "detail": out.error_detail})
        fails.append({"prop": "C03", "kind": "optimisation_did_not_terminate", "detail": out.error_detail})
    elif out.error is not None:
        fails.append({"prop": "C16" if "IndexError" in out.error else "C04", "kind": out.error,
                      "detail": out.error_detail})
        fails.append({"prop": "C03", "kind": "optimisation_raised:" + out.error, "detail": out.error_detail})
    else:
        r = out.result
        if not expected:
            if r is not None:
                fails.append({"prop": "C03", "kind": "result_on_infeasible",
                              "detail": "problem has no solution but %r was returned" % (list(r),)})
                fails.append({"prop": "C01", "kind": "invalid_solution",
                              "detail": "optimisation returned %r: %s" % (list(r), O.check_solution(model, list(r)))})
        else:
            vals = [s[var] for s in expected]
            best = min(vals) if direction == "min" else max(vals)
            if r is None:
                fails.append({"prop": "C03", "kind": "none_on_feasible",
                              "detail": "None returned but %d solutions exist (optimum %d)" % (len(expected), best)})
            else:
                why = O.check_solution(model, list(r))
                if why is not None:
                    fails.append({"prop": "C01", "kind": "invalid_solution",
                                  "detail": "optimisation returned %r: %s" % (list(r), why)})
                    fails.append({"prop": "C03", "kind": "infeasible_result", "detail": why})
                elif r[var] != best:
                    fails.append({"prop": "C03", "kind": "not_optimal",
                                  "detail": "returned %r with objective %d, optimum is %d" % (list(r), r[var], best)})
    for f in out.monitor_fails:
        fails.append(f)
    return fails


def stats_laws(st, cfg, complete, delivered):
    """Conservation laws of C17 checkable at the API boundary in both modes. Returns a message or None."""
    bc, bcs, sh, shc, shn, ent, flt, noch, inc, bt, ch, depth, sol = st
    if min(st) < 0:
        return "negative counter %r" % (st,)
    if inc + noch > flt or inc + ent > flt:
        return "filter=%d < inconsistency=%d + max(no_change=%d, entailment=%d)" % (flt, inc, noch, ent)
    if complete and shc + shn != sh:  # (a run cut by the step budget may have stopped in the middle of a probe)
        return "shaving attempts %d != successes %d + failures %d" % (sh, shc, shn)
    if sol != delivered and complete:
        return "solutions counted %d != delivered %d" % (sol, delivered)
    if depth > ch:
        return "depth %d > choices %d" % (depth, ch) if cfg.get("dh") not in ("mid", "min_cost") else None
    if complete and cfg.get("calg") == "bc":
        if cfg.get("dh") in ("min", "max", "split_low") and bt != ch:
            return "exhaustive BC enumeration: backtracks %d != choices %d" % (bt, ch)
        if cfg.get("dh") in ("mid", "min_cost") and not (ch <= bt <= 2 * ch):
            return "exhaustive BC enumeration: backtracks %d not in [choices, 2*choices] = [%d, %d]" % (bt, ch, 2 * ch)
        if bc != 1 + ch + bt:
            return "exhaustive BC enumeration: passes %d != 1 + choices %d + backtracks %d" % (bc, ch, bt)
    return None


# ------------------------------------------------------------------------------------------------- the worker
def _mon_spec(task, cache):
    spec = {}
    if not INTERP:
        return None
    for m in task.get("monitors", ["budget"]):
        spec[m] = dict(task.get("monitor_opts", {}).get(m, {}))
    if "calls" in spec:
        spec["calls"]["cache"] = cache
    return spec


def configs_for(rnd, model, task):
    mode = task.get("configs", "random")
    cost = task.get("cost", False)
    if mode == "all":
        cfgs = gen.all_configs()
    else:
        k = task.get("configs_per_model", 3)
        cfgs = [gen.gen_config(rnd, model, cost=cost) for _ in range(k)]
    fc = task.get("force_cfg")
    if fc:
        for c in cfgs:
            for key, choices in fc.items():
                v = rnd.choice(choices)
                if v == "min_cost" and c.get("costs") is None:
                    if all(a >= 0 for a, b in model["doms"]):
                        c["costs"] = gen.gen_costs(rnd, model["doms"])
                    else:
                        v = "mid"
                c[key] = v
    return cfgs


def run_models(task):
    """task: {props, seed, count, gen: {...}, configs, monitors, do: ['enum','opt'], max_points, deadline_s,
    orders: n extra constraint permutations}"""
    t0 = time.time()
    want = set(task["props"])
    rnd = random.Random(task["seed"])
    gopts = task.get("gen", {})
    max_points = task.get("max_points", 20000)
    deadline = t0 + task.get("deadline_s", 1e9)
    res = {
        "evals": 0, "models": 0, "hashes": [], "nontrivial": [], "classes": {}, "fails": [], "fail_counts": {},
        "samples": [], "counters": {}, "mode": MODE, "truncated": False, "solutions_checked": 0,
        "skipped_too_large": 0,
    }
    hull_cache = {}

    def cnt(k, n=1):
        res["counters"][k] = res["counters"].get(k, 0) + n

    def add_fail(f, model, cfg, extra=None):
        if f["prop"] not in want:
            return
        key = "%s|%s" % (f["prop"], f["kind"])
        c = res["fail_counts"].get(key, 0)
        res["fail_counts"][key] = c + 1
        if c < task.get("cap", 6):
            w = dict(f)
            if "call" not in w:
                w["model"], w["cfg"] = model, cfg
            else:
                w["in_model"], w["in_cfg"] = model, cfg
            w["mode"] = MODE
            if extra:
                w.update(extra)
            res["fails"].append(w)

    res["task"] = {k: v for k, v in task.items() if k not in ("props",)}
    for it in range(task["count"]):
        if time.time() > deadline:
            res["truncated"] = True
            break
        progress.flush(res)
        fixed = task.get("fixed_models") or []
        if it < len(fixed):
            model, tags = fixed[it], ["fixed_witness_model"]
        elif task.get("pairs") is not None:
            model, tags = gen.gen_pair_model(rnd, task["pairs"] + it)
        elif gopts.get("source") == "large_constraints_small_search":
            # constraints of arity up to 14 over 8-40 variables, all but 2-5 shared domains fixed to a planted assignment:
            # the brute-force oracles stay affordable while the propagators see long argument lists
            from framework.props import bigrun

            big, plant = bigrun.gen_big(rnd, {"max_vars": gopts.get("max_vars", 18)})
            model, tags = bigrun.restrict(big, plant, rnd, rnd.randint(2, 5)), ["large_constraints_small_search"]
            if it % 3 == 1:
                # ... and behind 250-300 instantiated variables: every shared-domain / variable index that matters is > 255
                model, _ = bigrun.pad_model(model, plant, rnd)
                tags = tags + ["indices_beyond_8_bits"]
        else:
            model, tags = gen.gen_model(rnd, gopts)
        if O.model_points(model) > max_points:
            res["skipped_too_large"] += 1
            continue
        res["models"] += 1
        expected = None
        cfgs = configs_for(rnd, model, task)
        variants = [(model, "posted")]
        for k in range(task.get("orders", 0)):
            m2 = dict(model)
            ps = list(model["props"])
            rnd.shuffle(ps)
            m2["props"] = ps
            variants.append((m2, "permuted%d" % k))
        for t in tags:
            if t.startswith("pair:"):
                res["counters"]["type_pairs_exercised"] = res["counters"].get("type_pairs_exercised", 0) + 1
                continue
            res["classes"][t] = res["classes"].get(t, 0) + 1
        for mv, vname in variants:
            for cfg in cfgs:
                if expected is None:
                    expected = O.brute(model)
                if "enum" in task.get("do", ["enum"]):
                    runs = [("plain", None, None)]
                    if INTERP:
                        for k in range(task.get("schedules", 0)):
                            runs.append(("schedule%d" % k, {"schedule": {"seed": task["seed"] * 1000 + it * 10 + k}},
                                         "C08"))
                        if task.get("downgrade"):
                            runs.append(("downgrade", {"flags": {"downgrade": True}}, "C07"))
                    for rname, extra_spec, relabel in runs:
                        spec = _mon_spec(task, hull_cache)
                        if spec is not None and "shaving" in spec:
                            spec["shaving"]["solutions"] = expected
                        if extra_spec:
                            spec = dict(spec or {})
                            spec.update(extra_spec)
                            if rname == "downgrade":
                                spec.pop("stats", None)  # the engine is handed altered statuses on purpose
                        progress.mark({"model": mv, "cfg": cfg, "what": ["enum"], "run": rname})
                        out = modelrun.run_enum(mv, cfg, spec, max_solutions=max(200, 3 * len(expected) + 50))
                        res["evals"] += 1
                        res["solutions_checked"] += len(out.solutions)
                        fails = judge_enum(mv, cfg, expected, out)
                        if relabel:
                            fails = [dict(f, prop=relabel, kind="%s_under_%s" % (f["kind"], rname.rstrip("0123456789")))
                                     if f["prop"] in ("C02", "C04") else f for f in fails]
                        h = case_hash([mv, cfg, "enum", rname])
                        res["hashes"].append(h)
                        nontriv = out.stats is not None and out.stats[10] >= 1
                        if task.get("nontrivial") == "shared_var_3exec":
                            nontriv = out.monitor_counts.get("fixpoint.passes_with_3plus_executions", 0) >= 1
                        elif task.get("nontrivial") == "shaving_probe":
                            nontriv = out.monitor_counts.get("shaving.probes", 0) >= 1
                        elif task.get("nontrivial") == "entailment":
                            nontriv = out.monitor_counts.get("flags.flags_cleared", 0) >= 1 and out.stats[9] >= 1
                        if nontriv:
                            res["nontrivial"].append(h)
                        for k2, v2 in out.monitor_counts.items():
                            if isinstance(v2, (int, float)):
                                if "max_" in k2 or k2.endswith("limit"):
                                    res["counters"][k2] = max(res["counters"].get(k2, 0), v2)
                                else:
                                    cnt(k2, v2)
                        cnt("cfg.%s/%s/%s" % (cfg["calg"], cfg["vh"], cfg["dh"]))
                        cnt("runs_%s" % rname.rstrip("0123456789"))
                        cnt("runs_with_%d_solutions" % len(expected) if len(expected) < 3 else
                            "runs_with_3plus_solutions")
                        if out.stats:
                            cnt("engine.choices", out.stats[10])
                            cnt("engine.backtracks", out.stats[9])
                            cnt("engine.filters", out.stats[6])
                            law = stats_laws(out.stats, cfg, out.error is None, len(out.solutions))
                            if law:
                                fails.append({"prop": "C17", "kind": "conservation_law", "detail": law})
                            cnt("law_checks")
                        if len(res["samples"]) < 4 and nontriv and res["evals"] % 37 == 1:
                            res["samples"].append({"model": mv, "cfg": cfg, "solutions": len(out.solutions),
                                                   "expected": len(expected), "stats": out.stats, "run": rname})
                        if fails:
                            _report(fails, mv, cfg, expected, task, want, add_fail, tags, ("enum",), rname)
                if "opt" in task.get("do", ["enum"]):
                    nv = len(model["idx"])
                    for _ in range(task.get("objectives_per_model", 2)):
                        var = rnd.randrange(nv)
                        direction = rnd.choice(["min", "max"])
                        spec = _mon_spec(task, hull_cache)
                        progress.mark({"model": mv, "cfg": cfg, "what": ["opt", var, direction]})
                        out = modelrun.run_opt(mv, cfg, var, direction, spec)
                        res["evals"] += 1
                        fails = judge_opt(mv, cfg, var, direction, expected, out)
                        h = case_hash([mv, cfg, "opt", var, direction])
                        res["hashes"].append(h)
                        if out.stats is not None and (out.stats[12] >= 2 or (out.stats[12] >= 1 and out.stats[10] >= 1)):
                            res["nontrivial"].append(h)
                        cnt("opt.%s" % direction)
                        cnt("opt.feasible" if expected else "opt.infeasible")
                        used = any(var in vs for vs, _, _ in model["props"])
                        cnt("opt.objective_constrained" if used else "opt.objective_unconstrained")
                        if model["off"][var] != 0:
                            cnt("opt.objective_has_offset")
                        for k2, v2 in out.monitor_counts.items():
                            if isinstance(v2, (int, float)) and not k2.endswith("limit") and "max_" not in k2:
                                cnt(k2, v2)
                        if len(res["samples"]) < 6 and expected and res["evals"] % 41 == 1:
                            res["samples"].append({"model": mv, "cfg": cfg, "objective": var, "direction": direction,
                                                   "result": out.result, "stats": out.stats})
                        if fails:
                            _report(fails, mv, cfg, expected, task, want, add_fail, tags, ("opt", var, direction))
    res["wall"] = time.time() - t0
    res["task"] = {k: v for k, v in task.items() if k not in ("props",)}
    return res


def _report(fails, model, cfg, expected, task, want, add_fail, tags, what, rname="plain"):
    """Minimises the first failure of each wanted property, then records it."""
    done = set()
    for f in fails:
        if f["prop"] not in want or f["prop"] in done:
            continue
        done.add(f["prop"])
        if "call" in f or not task.get("minimize", True) or rname != "plain" or f["prop"] not in (
                "C01", "C02", "C03", "C04", "C16"):
            add_fail(f, model, cfg, {"tags": tags, "what": list(what), "run": rname})
            continue
        prop, kindroot = f["prop"], f["kind"].split(":")[0].split("+")[0]

        def still(m2, c2, prop=prop, kindroot=kindroot):
            progress.touch()
            if O.model_points(m2) > task.get("max_points", 20000):
                return False
            exp2 = O.brute(m2)
            spec = {"budget": {}} if INTERP else None
            if what[0] == "enum":
                o2 = modelrun.run_enum(m2, c2, spec, max_solutions=max(200, 3 * len(exp2) + 50))
                fs = judge_enum(m2, c2, exp2, o2)
            else:
                if what[1] >= len(m2["idx"]):
                    return False
                o2 = modelrun.run_opt(m2, c2, what[1], what[2], spec)
                fs = judge_opt(m2, c2, what[1], what[2], exp2, o2)
            return any(g["prop"] == prop and g["kind"].split(":")[0].split("+")[0] == kindroot for g in fs)

        can_min = INTERP or f["kind"] not in ("step_budget",)
        if can_min:
            m2, c2, n = minimize.minimize(model, cfg, still, max_evals=task.get("min_evals", 100))
        else:
            m2, c2, n = model, cfg, 0
        # recompute the failure detail on the minimal witness
        detail = f["detail"]
        if n:
            exp2 = O.brute(m2)
            spec = {"budget": {}} if INTERP else None
            if what[0] == "enum":
                o2 = modelrun.run_enum(m2, c2, spec, max_solutions=max(200, 3 * len(exp2) + 50))
                fs = judge_enum(m2, c2, exp2, o2)
            else:
                o2 = modelrun.run_opt(m2, c2, what[1], what[2], spec)
                fs = judge_opt(m2, c2, what[1], what[2], exp2, o2)
            for g in fs:
                if g["prop"] == prop and g["kind"].split(":")[0].split("+")[0] == kindroot:
                    f = g
                    break
        add_fail(f, m2, c2, {"minimized": True, "min_evals": n, "what": list(what),
                             "original": {"model": model, "cfg": cfg, "tags": tags}})


def replay_model(task):
    """Re-executes one recorded (model, cfg) and judges it for one property."""
    w = task["witness"]
    model, cfg = w["model"], w["cfg"]
    what = w.get("what", ["enum"])
    expected = O.brute(model)
    spec = None
    if INTERP:
        spec = {m: {} for m in task.get("monitors", ["budget"])}
    if what[0] == "enum":
        out = modelrun.run_enum(model, cfg, spec, max_solutions=max(200, 3 * len(expected) + 50))
        fails = judge_enum(model, cfg, expected, out)
    else:
        out = modelrun.run_opt(model, cfg, what[1], what[2], spec)
        fails = judge_opt(model, cfg, what[1], what[2], expected, out)
    return {"fails": [f for f in fails if f["prop"] == task["prop"]], "outcome": out.as_dict()}


def replay_case(task):
    """Re-executes one case {model, cfg, what} (stall resolution): all failures, any property."""
    c = task["case"]
    model, cfg, what = c["model"], c["cfg"], c.get("what", ["enum"])
    expected = O.brute(model) if O.model_points(model) <= 300000 else []
    spec = {"budget": {"scale": task.get("scale", 1)}} if INTERP else None
    if what[0] == "enum":
        out = modelrun.run_enum(model, cfg, spec, max_solutions=max(200, 3 * len(expected) + 50))
        fails = judge_enum(model, cfg, expected, out)
    else:
        out = modelrun.run_opt(model, cfg, what[1], what[2], spec)
        fails = judge_opt(model, cfg, what[1], what[2], expected, out)
    return {"fails": fails, "outcome": out.as_dict(), "mode": MODE}

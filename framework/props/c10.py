"""C10 - shaving is a sound strengthening of bound consistency."""
from framework.props import _modelprop, modelfamily

RULE = ("plane-A monitor around every call of the shaving algorithm in real searches: stack height unchanged, levels "
        "below untouched, domains shrink, result inside what plain BC returns from the same entry state (real BC on "
        "private copies), no O-brute solution of the entry box removed, inconsistency only if none; probe monitor: "
        "every 'shaved' answer re-derived by BC with the variable fixed to that bound, every failed probe undone "
        "exactly; solver level: same solution multiset / optimum as O-brute (hence as BC). distinct = distinct "
        "(model, cfg); non-trivial = >= 1 probe")


def main(tier, seed):
    from framework import gen

    saved = gen.CALGS
    gen.CALGS = ["shaving"]
    try:
        rep = _modelprop.run(
            "C10", tier, seed, RULE, do=["enum", "opt"], monitors=["budget", "shaving", "fixpoint"],
            want=["C10", "C02", "C03"], jit_share=0.25, per_job=40 if tier == "quick" else 600,
            monitor_opts={"fixpoint": {"ofix": False}}, configs_per_model=2,
            task_extra={"nontrivial": "shaving_probe"},
            needs=[("shaving.probes", 5000, "probe monitor"), ("shaving.refutations_rechecked", 100, "refutations"),
                   ("shaving.bc_references", 2000, "BC reference runs"),
                   ("shaving.solution_sets_checked", 2000, "solution preservation")],
            assumptions=["C02/C03 failures with the shaving algorithm are reported here as C10 (solver-level clause)"])
    finally:
        gen.CALGS = saved
    return rep.finish()


def replay(rep_json):
    return modelfamily.replay_generic("C10", rep_json, monitors=("budget", "shaving"))

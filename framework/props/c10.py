"""C10 - shaving is a sound strengthening of bound consistency."""
from framework.props import _modelprop, modelfamily

RULE = ("plane-A monitor around every call of the shaving algorithm in real searches: stack height unchanged, levels "
        "below untouched, domains shrink, result inside what plain BC returns from the same entry state (real BC on "
        "private copies), no O-brute solution of the entry box removed, inconsistency only if none; probe monitor: "
        "every 'shaved' answer re-derived by BC with the variable fixed to that bound, every failed probe undone "
        "exactly; solver level: same solution multiset / optimum as O-brute (hence as BC). distinct = distinct "
        "(model, cfg); non-trivial = >= 1 probe")


def probe_jobs(tier, seed):
    from framework.common import Job

    q = tier == "quick"
    return [Job("framework.props.proberun", "run_probe",
                {"seed": seed * 467 + k, "count": 120 if q else 2500, "deadline_s": 60 if q else 600},
                mode="jit", timeout=300 if q else 1500, tag="probe:%d" % k, stall_s=120)
            for k in range(2 if q else 4)] + big_jobs(tier, seed)


def big_jobs(tier, seed):
    from framework.props import bigrun

    return bigrun.jobs("C10", tier, seed + 6, calg="shaving")


def _post(rep, extra):
    from framework.props import bigrun, proberun

    proberun.aggregate(rep, [j for j in extra if j.func == "run_probe"])
    bigrun.aggregate(rep, [j for j in extra if j.func == "run_big"])


def main(tier, seed):
    from framework import gen

    saved = gen.CALGS
    gen.CALGS = ["shaving"]
    try:
        rep = _modelprop.run(
            "C10", tier, seed, RULE, do=["enum", "opt"], monitors=["budget", "shaving", "fixpoint", "branch"],
            want=["C10", "C02", "C03"], jit_share=0.25, per_job=40 if tier == "quick" else 600,
            monitor_opts={"fixpoint": {"ofix": False}}, configs_per_model=2,
            task_extra={"nontrivial": "shaving_probe"}, extra_jobs=probe_jobs, post=_post,
            needs=[("shaving.probes", 5000, "probe monitor"), ("shaving.refutations_rechecked", 100, "refutations"),
                   ("shaving.bc_references", 2000, "BC reference runs"),
                   ("shaving.solution_sets_checked", 2000, "solution preservation"),
                   ("branch.shaves_audited", 50, "announcement of shaved bounds"),
                   ("probe.shaving_calls_monitored", 300, "compiled in-engine probe (plane B)"),
                   ("big.enumerations_completed", 100, "shaving on large planted models")],
            assumptions=["C02/C03 failures with the shaving algorithm are reported here as C10 (solver-level clause)"])
    finally:
        gen.CALGS = saved
    return rep.finish()


def replay(rep_json):
    return modelfamily.replay_generic("C10", rep_json, monitors=("budget", "shaving", "branch"))

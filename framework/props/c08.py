"""C08 - propagation stops only at a common fixpoint and only ever shrinks domains."""
from framework.common import Job
from framework.props import _modelprop, modelfamily

RULE = ("plane-A monitor around every propagation pass (root, after each branch/backtrack, inside shaving): domains "
        "non-empty and contained in their entry value; every still-enabled constraint re-executed through the real "
        "propagator on the result must not fail nor (except no_sub_cycle) prune; exact-BC models compared with the "
        "greatest common fixpoint computed by an independent reference (O-fix). Schedule injection: 3-5 seeded "
        "adversarial wake-up orders per model (any triggered propagator != previous), same invariants + unchanged "
        "solution multiset. Direct trigger-sufficiency test per constraint type. distinct = distinct (model, cfg, "
        "schedule); non-trivial = some pass executed >= 3 constraints")


def probe_jobs(tier, seed):
    q = tier == "quick"
    w = {"doms": [[3, 4], [3, 4], [2, 4]], "idx": [0, 1, 2], "off": [0, 0, 0],
         "props": [[[0, 1, 2], "affine_eq", [-3, 1, 2, -3]]]}
    return [Job("framework.props.proberun", "run_probe",
                {"seed": seed * 463 + k, "count": 150 if q else 3000, "deadline_s": 60 if q else 600,
                 "gen": {"types": None} if False else {}, "fixed_models": [w] if k == 0 else []},
                mode="jit", timeout=300 if q else 1500, tag="probe:%d" % k, stall_s=120)
            for k in range(3 if q else 6)]


def matrix_jobs(tier, seed):
    q = tier == "quick"
    return [Job("framework.props.triggers", "run_event_matrix", {"seed": seed * 733 + k, "repeats": 4 if q else 40},
                mode="interp" if k < (2 if q else 5) else "jit", timeout=300 if q else 1500, tag="matrix:%d" % k)
            for k in range(3 if q else 7)]


def trigger_jobs(tier, seed):
    q = tier == "quick"
    from framework.props import bigrun

    return matrix_jobs(tier, seed) + probe_jobs(tier, seed) + bigrun.jobs("C08", tier, seed + 4) + bigrun.interp_jobs(
        "C08", tier, seed + 8, ["budget", "fixpoint"], circuits=2 if tier == "quick" else 4) + [Job("framework.props.triggers", "run_triggers",
                {"seed": seed * 389 + k, "count": 8000 if q else 60000, "deadline_s": 80 if q else 600},
                mode="interp" if k % 2 else "jit", timeout=300 if q else 1500, tag="triggers:%d" % k)
            for k in range(2 if q else 6)]


def main(tier, seed):
    def post(rep, extra):
        from framework.props import proberun, triggers

        triggers.aggregate(rep, [j for j in extra if j.func == "run_triggers"])
        proberun.aggregate(rep, [j for j in extra if j.func == "run_probe"])
        from framework.props import bigrun

        bigrun.aggregate(rep, [j for j in extra if j.func in ("run_big", "run_big_interp")])
        triggers.aggregate_matrix(rep, [j for j in extra if j.func == "run_event_matrix"])

    rep = _modelprop.run(
        "C08", tier, seed, RULE, do=["enum"], monitors=["budget", "fixpoint"], jit_share=0.0,
        per_job=30 if tier == "quick" else 500, extra_jobs=trigger_jobs, post=post,
        needs=[("fixpoint.passes_checked", 10000, "pass monitor"), ("fixpoint.reexecutions", 20000, "re-execution"),
               ("fixpoint.ofix_compared", 2000, "O-fix comparison"), ("schedule.pops_with_a_choice", 2000,
                                                                     "schedule injection"),
               ("triggers.unwatched_moves_checked", 2000, "trigger sufficiency"),
               ("probe.bc_passes_monitored", 3000, "compiled in-engine probe (plane B)"),
               ("event_matrix.(type,event) cells", 100, "event x watcher matrix"),
               ("probe.reexecutions", 5000, "compiled in-engine probe (plane B)"),
               ("fixpoint.ofix_compared_beyond_enumeration", 20, "greatest fixpoint of large models (support oracle)")],
        assumptions=["O-fix: chaotic iteration of the exhaustive hull operator; equality demanded only for models whose "
                     "constraints are all BC-documented types (gcc with positive capacities, no affine_eq)",
                     "order-independence is asserted only for those models"],
        configs_per_model=2, task_extra={"schedules": 3 if tier == "quick" else 5, "nontrivial": "shared_var_3exec"})
    return rep.finish()


def replay(rep_json):
    return modelfamily.replay_generic("C08", rep_json, monitors=("budget", "fixpoint"))

"""C19 - exceeding a configured capacity is reported, never silently corrupting."""
from framework import common
from framework.common import Job
from framework.report import Report

RULE = ("sweep stack_max_height in {2,3,4,8,16,127,128,129,254,255,256,257,300,512,1024} x required search depth "
        "height-3..height+3 (chains of free variables whose enumeration order is known analytically) x value heuristic "
        "(mid-value pushes two levels per choice) x {BC, shaving}; all stacks are views into larger sentinel-filled "
        "buffers (red-zone canaries). Problem sizes around the index types: total constraint arity and parameter count "
        "at 65535 +/- {0..16} and far beyond (a multiprocessing solver one of whose workers needs more stack than "
        "configured must raise or still be right, never answer from the surviving workers alone), 65535/65536/65537 shared domains, propagator type index 254..257. "
        "Verdict: silent wrong/duplicated/missing solutions, a written guard row, a stack pointer that went backwards, "
        "or a refusal strictly inside the capacity are violations; at and beyond the boundary an error or a correct "
        "answer is accepted. distinct = distinct (height, depth, heuristic, algorithm) resp. (kind, size); all are "
        "non-trivial")


def main(tier, seed):
    from framework.props.capacity import HEIGHTS

    q = tier == "quick"
    rep = Report("C19", tier, seed, "exploration", RULE)
    if common.warm_cache("jit") < 0:
        rep.inconclusive.append("JIT cache warm-up failed")
    jobs = []
    groups = [[2, 3, 4, 8, 16], [127], [128], [129], [254], [255], [256, 257], [300, 512, 1024]]
    for g in groups:
        jobs.append(Job("framework.props.capacity", "run_stack", {"heights": g}, mode="jit",
                        timeout=400 if q else 1200, tag="stack:%s" % g, stall_s=200))
    jobs.append(Job("framework.props.capacity", "run_stack", {"heights": [2, 3, 4, 8, 16]}, mode="interp",
                    timeout=400, tag="stack:interp", stall_s=200))
    # the interpreted engine has its own arithmetic (numpy scalars wrap where numba promotes): the heights next to the
    # limits of the 8-bit stack pointer are swept under interpretation too
    for g in ([127, 128], [253, 254]):
        jobs.append(Job("framework.props.capacity", "run_stack", {"heights": g, "only_calg": "bc"}, mode="interp",
                        timeout=600 if q else 1500, tag="stack:interp:%s" % g, stall_s=300))
    off = [0, 1, 2, 3, 8, 16] if q else list(range(0, 17))
    arity = sorted(set([60000] + [65532 - o for o in off] + [65532 + o for o in off[1:]] + [65800, 131070]))
    params = sorted(set([60000] + [65531 - o for o in off] + [65531 + o for o in off[1:]] + [66000, 131070]))
    half = len(arity) // 2
    jobs.append(Job("framework.props.capacity", "run_sizes", {"cases": [["arity", n] for n in arity[:half]]},
                    mode="jit", timeout=600, tag="sizes:arity1"))
    jobs.append(Job("framework.props.capacity", "run_sizes", {"cases": [["arity", n] for n in arity[half:]]},
                    mode="jit", timeout=600, tag="sizes:arity2"))
    jobs.append(Job("framework.props.capacity", "run_sizes", {"cases": [["params", n] for n in params]},
                    mode="interp", timeout=600, tag="sizes:params"))
    jobs.append(Job("framework.props.capacity", "run_sizes",
                    {"cases": [["domains", n] for n in (65535, 65536, 65537)]}, mode="jit", timeout=600,
                    tag="sizes:domains"))
    jobs.append(Job("framework.props.capacity", "run_sizes",
                    {"cases": [["types", n] for n in (254, 255, 256, 257)]}, mode="interp", timeout=600,
                    tag="sizes:types"))
    # a stack that is too small inside a worker process of the multiprocessing solver: the call must raise or be right
    ns = [11] if q else [11, 12, 13]
    for op in ("solve", "minimize", "maximize"):
        for k in (2, 3):
            cases = [[n, h, k, op] for n in ns for h in (n - 3, n - 1, n, n + 1, n + 2, n + 4)]
            jobs.append(Job("framework.props.capacity", "run_mp_stack", {"cases": cases},
                            mode="jit" if (op == "solve" or k == 2) else "interp", timeout=900 if q else 2400,
                            tag="mpstack:%s:%d" % (op, k), stall_s=300))
    common.run_jobs(jobs)
    distinct = set()
    for j in jobs:
        if j.status != "ok":
            if j.rc is not None and j.rc < 0:
                rep.violation({"prop": "C19", "kind": "process_killed_by_signal", "mode": j.mode,
                               "detail": "child died with signal %d while running %r" % (-j.rc, j.stalled_case),
                               "case": j.stalled_case})
            else:
                rep.job_problem(j)
            continue
        r = j.result
        rep.evaluations += r["evals"]
        distinct.update(r["hashes"])
        for k, v in r["counters"].items():
            rep.count(k, v)
        for s in r["samples"][:2]:
            rep.sample(s)
        for f in r["fails"]:
            rep.violation(f)
        for k, v in r["fail_counts"].items():
            rep.count("failures." + k, v)
        rep.add_class("%s:%s" % (j.func, r["mode"]), r["evals"])
    rep.distinct = distinct
    rep.need("outcome.inside.correct", 100, "in-capacity searches")
    rep.need("outcome.beyond.error", 50, "beyond-capacity searches")
    rep.need("size.arity.beyond.error", 3, "arity beyond uint16")
    rep.need("size.params.beyond.error", 3, "parameters beyond uint16")
    rep.need("mp_stack.beyond.error", 6, "multiprocessing calls with a worker whose stack is too small")
    rep.need("mp_stack.inside.correct", 6, "multiprocessing calls within the stack")
    rep.assumptions = ["'height h' is read as: h-1 nested choice points are guaranteed; the two depths at the boundary "
                       "form a tolerance band (either a correct answer or an error)"]
    return rep.finish()


def replay(rep_json):
    from framework.props import _modelprop

    return _modelprop.replay_job("C19", rep_json, "framework.props.capacity", "replay_capacity")

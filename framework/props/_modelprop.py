"""Boilerplate shared by the model-level property modules."""
from framework import common
from framework.props import modelfamily
from framework.report import Report


def run(prop, tier, seed, rule, level="exploration", needs=(), assumptions=(), extra_jobs=None, post=None, **bj):
    rep = Report(prop, tier, seed, level, rule)
    if bj.get("jit_share", 0.3) > 0 and common.warm_cache("jit") < 0:
        rep.inconclusive.append("JIT cache warm-up failed")
    jobs = modelfamily.build_jobs(prop, tier, seed, **bj)
    extra = extra_jobs(tier, seed) if extra_jobs else []
    common.run_jobs(jobs + extra)
    modelfamily.aggregate(rep, jobs)
    if post:
        post(rep, extra)
    for key, minimum, what in needs:
        rep.need(key, minimum, what)
    rep.assumptions = list(assumptions)
    return rep


def replay_job(prop, rep_json, module, func, extra=None, mode=None):
    """Runs one recorded witness through a worker function returning {'fails': [...]}."""
    from framework.common import Job

    w = rep_json["witness"]
    task = {"witness": w, "prop": prop}
    task.update(extra or {})
    j = Job(module, func, task, mode=mode or w.get("mode", "interp"), timeout=900)
    common.run_jobs([j])
    if j.status != "ok":
        print("replay could not run: %s\n%s" % (j.status, (j.stderr or "")[-1500:]))
        return 2
    fails = j.result["fails"]
    for f in fails:
        print("VIOLATION property=%s replay=<replayed>\n  %s: %s" % (prop, f.get("kind"), f.get("detail")))
    if not fails:
        print("replay: property %s holds on the recorded case" % prop)
    return 1 if fails else 0

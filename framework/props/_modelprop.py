"""Boilerplate shared by the model-level property modules."""
from framework import common
from framework.props import modelfamily
from framework.report import Report


def run(prop, tier, seed, rule, level="exploration", needs=(), assumptions=(), extra_jobs=None, post=None, **bj):
    rep = Report(prop, tier, seed, level, rule)
    if bj.get("jit_share", 0.3) > 0 and common.warm_cache("jit") < 0:
        rep.inconclusive.append("JIT cache warm-up failed")
    jobs = modelfamily.build_jobs(prop, tier, seed, **bj)
    extra = extra_jobs(tier, seed) if extra_jobs else []
    common.run_jobs(jobs + extra)
    modelfamily.aggregate(rep, jobs)
    if post:
        post(rep, extra)
    for key, minimum, what in needs:
        rep.need(key, minimum, what)
    rep.assumptions = list(assumptions)
    return rep

"""C05 - filtering never removes a value that takes part in a solution (DESIGN.md section 6)."""
from framework import oracles as O
from framework.props import callfamily

RULE = ("one call compute_domains_<type>(box, params) on the real function, judged against exhaustive O-hull: output "
        "inside input, every satisfying tuple of the input box kept, inconsistency only if none; exhaustive small "
        "scope per type + seeded random boxes (compiled and interpreted). distinct = distinct (type, box, params); "
        "non-trivial = the call changed a bound or answered inconsistency/entailment")


def main(tier, seed):
    from framework.props import bigrun

    rep = callfamily.run("C05", tier, seed, O.TYPES, "exploration", RULE,
                         extra_jobs=bigrun.interp_jobs("C05", tier, seed + 9, ["budget", "calls"],
                                                       monitor_opts={"calls": {"hull_limit": 3000}}),
                         extra_aggregate=bigrun.aggregate)
    rep.need("calls.distinct_judged", 1000, "in-engine executions on large models judged against the exact hull")
    return rep.finish()


def replay(rep_json):
    return callfamily.replay_generic("C05", rep_json)

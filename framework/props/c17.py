"""C17 - reported statistics are exact counts obeying conservation laws."""
from framework.common import Job
from framework.props import _modelprop, modelfamily, mpfamily

RULE = ("plane A: every counter of get_statistics() compared with the monitor's own count of the defining event "
        "(passes, executions by outcome, no-change = output box equals input box, choices, successful backtracks, "
        "depth, solutions delivered, shaving probes by outcome) after every delivered solution (quiescent points) and "
        "at the end of enumeration / optimisation runs; conservation laws checked in both modes; multiprocessing "
        "totals vs per-worker sums through the schedule shim; the laws also on large planted models (arity <= 14, compiled). "
        "distinct = distinct (model, cfg, operation); "
        "non-trivial = >= 1 choice")


def mp_jobs(tier, seed):
    q = tier == "quick"
    return [Job("framework.props.mpfamily", "run_mp_shim",
                {"props": ["C17"], "seed": seed * 313 + k, "count": 20 if q else 200, "enum_limit": 2000,
                 "samples": 100, "deadline_s": 60 if q else 600},
                mode="interp" if k % 2 else "jit", timeout=300 if q else 1500, tag="mpshim:%d" % k, stall_s=90)
            for k in range(2 if q else 6)] + bigrun_jobs(tier, seed)


def bigrun_jobs(tier, seed):
    from framework.props import bigrun

    return bigrun.jobs("C17", tier, seed + 5)


def main(tier, seed):
    def post(rep, extra):
        from framework.props import bigrun

        mpfamily.aggregate(rep, [j for j in extra if j.module == "framework.props.mpfamily"])
        bigrun.aggregate(rep, [j for j in extra if j.module == "framework.props.bigrun"])

    rep = _modelprop.run(
        "C17", tier, seed, RULE, do=["enum", "opt"], monitors=["budget", "stats"], extra_jobs=mp_jobs, post=post,
        needs=[("stats.comparisons", 5000, "counter comparisons"),
               ("stats.quiescent_point_comparisons", 3000, "partial-enumeration comparisons"),
               ("law_checks", 2000, "conservation laws"), ("runs_jit", 300, "compiled runs (laws)"),
               ("mp.cases", 20, "multiprocessing aggregation"),
               ("big.statistics_vectors_checked", 500, "laws on large compiled models")],
        assumptions=["inconsistency counter = executions answering inconsistency (a pass that ends because the views of "
                     "one shared domain are disjoint moves no propagator counter)",
                     "compiled mode: laws only; exactness is inherited through C15 (identical statistics in both modes)"])
    return rep.finish()


def replay(rep_json):
    return modelfamily.replay_generic("C17", rep_json, monitors=("budget", "stats"))

"""C16 - no in-contract input makes the engine read or write outside its arrays."""
from framework import common
from framework.common import Job
from framework.report import Report

RULE = ("in-contract workloads (random boxes per constraint type, random models x configurations incl. cost-based "
        "heuristics, the heuristics unit harness, shipped models at small sizes, in-capacity deep searches, large planted "
        "models with arity <= 14 in the bounds-check build) executed "
        "under (1) a source-level bounds sanitizer: every non-literal subscript of every nucs module re-compiled to "
        "check integer indices, index arrays and slice bounds per axis, flagging computed negative indices and clamped "
        "slices too; (2) numba's bounds-check build with an unraisable-exception hook that halts on the first report; "
        "(3) red-zone canaries around the solver's stacks. distinct = instrumented subscript sites reached; non-trivial "
        "= all of them (each evaluated at least once with a computed index)")


def main(tier, seed):
    q = tier == "quick"
    rep = Report("C16", tier, seed, "exploration", RULE)
    if common.warm_cache("bc", timeout=1500) < 0:
        rep.inconclusive.append("bounds-check build warm-up failed")
    jobs = []
    nsan = 8 if q else 12
    for c in range(nsan):
        heavy = c in (3, 4)  # these two jobs spend their time on the canary / tight-stack workloads
        jobs.append(Job("framework.props.sanrun", "run_sanitized",
                        {"seed": seed * 911 + c, "calls": 200 if heavy else (1500 if q else 20000),
                         "models": 5 if heavy else (25 if q else 400), "shipped": c < 2, "units": c == 2,
                         "unit_random": 100, "canary": heavy, "tier": tier, "tight": 40 if q else 400,
                         "deadline_s": 90 if q else 900},
                        mode="interp", env={"NUCS_VERIF_SANITIZER": "1"}, timeout=400 if q else 1800,
                        tag="sanitizer:%d" % c, stall_s=200))
    for c in range(5 if q else 8):
        heavy = c in (3, 4)
        jobs.append(Job("framework.props.sanrun", "run_bc",
                        {"seed": seed * 919 + c, "calls": 500 if heavy else (4000 if q else 60000),
                         "models": 10 if heavy else (120 if q else 2500), "shipped": c < 2, "units": c == 2,
                         "unit_random": 400, "canary": heavy, "tier": tier, "tight": 80 if q else 800,
                         "big": (60 if q else 1500) if c in (0, 2) else 0, "big_deadline_s": 40 if q else 600,
                         "deadline_s": 90 if q else 900},
                        mode="bc", timeout=400 if q else 1800, tag="boundscheck:%d" % c, stall_s=200))
    common.run_jobs(jobs)
    reached, sites = set(), 0
    unreached = None
    bymod = {}
    for j in jobs:
        if j.status != "ok":
            if j.rc is not None and j.rc < 0:
                rep.violation({"prop": "C16", "kind": "process_killed_by_signal", "mode": j.mode,
                               "detail": "child died with signal %d on input %r" % (-j.rc, j.stalled_case),
                               "input": j.stalled_case})
            else:
                rep.job_problem(j)
            if not j.result:
                continue
        r = j.result
        for f in r["fails"]:
            rep.violation(dict(f, mode=r["mode"]))
        for k, v in r.get("counts", {}).items():
            rep.count("%s.%s" % ("sanitizer" if j.func == "run_sanitized" else "boundscheck", k), v)
            rep.evaluations += v if k in ("calls", "runs", "shipped", "units", "canary_cases", "tight_stack_cases", "large_model_runs") else 0
        if j.func == "run_sanitized":
            sz = r["sanitizer"]
            sites = max(sites, sz["sites"])
            reached.update(sz["reached_sites"])
            un = set(x["site"] for x in sz["unreached"])
            unreached = un if unreached is None else (unreached & un)
            rep.count("sanitizer.index_evaluations", sz["index_evaluations"])
            rep.count("sanitizer.reports", r["reports"])
            exprs = {x["site"]: x["expr"] for x in sz["unreached"]}
            rep.extra.setdefault("_exprs", {}).update(exprs)
        else:
            if r.get("halted"):
                rep.count("boundscheck.halted_on_report")
    exprs = rep.extra.pop("_exprs", {})
    rep.distinct = reached
    rep.counters["sanitizer.sites_instrumented"] = sites
    rep.counters["sanitizer.sites_reached"] = len(reached)
    rep.extra["sites_not_reached"] = [{"site": s, "expr": exprs.get(s)} for s in sorted(unreached or [])][:150]
    rep.extra["sites_not_reached_count"] = len(unreached or [])
    rep.need("sanitizer.sites_reached", 600, "instrumented sites reached")
    rep.need("sanitizer.index_evaluations", 200000, "checked index evaluations")
    rep.need("boundscheck.calls", 5000, "bounds-check build propagator calls")
    rep.need("boundscheck.runs", 200, "bounds-check build solver runs")
    rep.need("boundscheck.tight_stack_cases", 30, "tight-stack searches under canaries")
    rep.assumptions = ["a clean run is not memory safety: only reached sites with the index values that occurred",
                       "compiled-mode negative wrap-around is invisible to the bounds-check build and inferred from the "
                       "source-level sanitizer on the same source",
                       "literal negative indices and upper-case constant indices are exempt (deliberate idioms)"]
    return rep.finish()


def replay(rep_json):
    print("replay: the witness records the input (call / model / shipped instance); re-run ./check C16")
    return 2

"""C09 - branching partitions the chosen domain; backtracking restores the saved state."""
from framework.common import Job
from framework.props import _modelprop, modelfamily

RULE = ("(a) unit level, both modes: every value heuristic called on hand-built stacks for all [a,b], a in [-5,5], "
        "width 1..8 (exhaustive), random other domains/flags/levels, cost tables with ties; postcondition: non-empty "
        "pairwise disjoint sub-ranges with union [a,b], other domains and flags untouched, returned mask and recorded "
        "(domain, events) announce every moved bound and GROUND; then backtrack() driven until the level is exhausted, "
        "each restore compared bit for bit. (b) the same assertions around every heuristic call and backtrack of real "
        "searches on plane A. distinct = distinct (heuristic, [a,b], level, costs) resp. (model, cfg); non-trivial = "
        "width >= 2 resp. >= 1 decision")


def unit_jobs(tier, seed):
    q = tier == "quick"
    return [Job("framework.props.heurunit", "run_units", {"seed": seed * 211 + k, "tier": tier,
                                                          "random": 600 if q else 8000},
                mode=m, timeout=300 if q else 1200, tag="heurunit:" + m) for k, m in enumerate(("interp", "jit"))]


def main(tier, seed):
    def post(rep, extra):
        from framework.props import heurunit

        heurunit.aggregate(rep, extra)

    rep = _modelprop.run(
        "C09", tier, seed, RULE, do=["enum", "opt"], monitors=["budget", "branch"], jit_share=0.0, cost_share=0.34,
        per_job=40 if tier == "quick" else 600, extra_jobs=unit_jobs, post=post,
        needs=[("branch.decisions_search", 5000, "in-search decision monitor"),
               ("branch.restores_compared", 3000, "restore monitor"),
               ("unit.heuristic_calls", 2000, "unit harness"), ("unit.backtracks", 2000, "unit harness")],
        assumptions=["property quantifies over a<b: decisions on instantiated domains are counted, not judged"])
    return rep.finish()


def replay(rep_json):
    return modelfamily.replay_generic("C09", rep_json, monitors=("budget", "branch"))

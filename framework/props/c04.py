"""C04 - propagation and search terminate on every finite problem (bounded-progress form, DESIGN.md C04)."""
from framework.props import _modelprop, modelfamily

RULE = ("'eventually returns' is restated as logical budgets enforced by monitors inside the interpreted engine: "
        "constraint executions per pass <= 4*(total domain size * #constraints + #constraints); executed lines per "
        "propagator call (sys.monitoring) <= 2000+120*(n+#params)^2; choices <= 2*product of domain sizes + 8; "
        "backtracks <= 2*choices; shaving probes per call <= 8*(total size + #domains); restarts <= objective width + "
        "3. Compiled runs: parent-side stall watchdog, stalled case replayed under the budgets. Single filtering calls of "
        "every type on random boxes up to arity 8 under the same line budget / watchdog. distinct = distinct "
        "(model, cfg, operation); non-trivial = >= 1 choice")


def call_jobs(tier, seed):
    """Termination of single filtering calls beyond what searches on small models reach (arity up to 8): the random and
    deep-arity call streams of C05, interpreted under the line budget and compiled under the stall watchdog."""
    from framework import oracles as O
    from framework.props import callfamily

    return [j for j in callfamily.build_jobs("C04", tier, seed + 29, O.TYPES, zero_cap_stream=False)
            if j.tag.startswith(("rnd:", "deep:", "lex:"))]


def main(tier, seed):
    def post(rep, extra):
        from framework import oracles as O
        from framework.props import callfamily

        d, rep.distinct = rep.distinct, set()
        callfamily.aggregate(rep, extra, O.TYPES)
        rep.distinct = set(d) | set("call:" + str(h) for h in rep.distinct)

    rep = _modelprop.run(
        "C04", tier, seed, RULE, do=["enum", "opt"], monitors=["budget"], orders=0, extra_jobs=call_jobs, post=post,
        needs=[("budget.prop_execs", 20000, "execution counter"), ("budget.passes", 5000, "pass counter"),
               ("budget.shaving_probes", 500, "probe counter"), ("runs_jit", 300, "compiled runs"),
               ("calls_interp", 5000, "single calls under the line budget"),
               ("calls_jit", 10000, "compiled single calls under the stall watchdog")],
        assumptions=["budgets are combinatorial bounds with a x4 safety factor (DESIGN.md C04)",
                     "a run that exceeds a budget is a violation only on plane A; wall-clock stalls are replayed there"])
    rep.extra["budgets"] = {"pass_limit_max_seen": rep.counters.get("budget.pass_limit"),
                            "max_execs_in_one_pass": rep.counters.get("budget.max_execs_in_one_pass"),
                            "max_lines_in_one_call": rep.counters.get("budget.max_lines_in_one_call")}
    return rep.finish()


def replay(rep_json):
    return modelfamily.replay_generic("C04", rep_json)

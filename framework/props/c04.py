"""C04 - propagation and search terminate on every finite problem (bounded-progress form, DESIGN.md C04)."""
from framework.props import _modelprop, modelfamily

RULE = ("'eventually returns' is restated as logical budgets enforced by monitors inside the interpreted engine: "
        "constraint executions per pass <= 4*(total domain size * #constraints + #constraints); executed lines per "
        "propagator call (sys.monitoring) <= 2000+120*(n+#params)^2; choices <= 2*product of domain sizes + 8; "
        "backtracks <= 2*choices; shaving probes per call <= 8*(total size + #domains); restarts <= objective width + "
        "3. Compiled runs: parent-side stall watchdog, stalled case replayed under the budgets. distinct = distinct "
        "(model, cfg, operation); non-trivial = >= 1 choice")


def main(tier, seed):
    rep = _modelprop.run(
        "C04", tier, seed, RULE, do=["enum", "opt"], monitors=["budget"], orders=0,
        needs=[("budget.prop_execs", 20000, "execution counter"), ("budget.passes", 5000, "pass counter"),
               ("budget.shaving_probes", 500, "probe counter"), ("runs_jit", 300, "compiled runs")],
        assumptions=["budgets are combinatorial bounds with a x4 safety factor (DESIGN.md C04)",
                     "a run that exceeds a budget is a violation only on plane A; wall-clock stalls are replayed there"])
    rep.extra["budgets"] = {"pass_limit_max_seen": rep.counters.get("budget.pass_limit"),
                            "max_execs_in_one_pass": rep.counters.get("budget.max_execs_in_one_pass"),
                            "max_lines_in_one_call": rep.counters.get("budget.max_lines_in_one_call")}
    return rep.finish()


def replay(rep_json):
    return modelfamily.replay_generic("C04", rep_json)

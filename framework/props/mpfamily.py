"""Multiprocessing-solver workloads: schedule shim (all interleavings), real processes with delays, fault grid.
Serves C11, C18 and the multiprocessing clauses of C01, C03, C17.
"""
import collections
import os
import random
import time

from framework import gen, progress
from framework import oracles as O
from framework.common import Job, case_hash

MODE = os.environ.get("NUCS_VERIF_MODE", "interp")
STAT_KEYS = [
    "ALG_BC_NB", "ALG_BC_WITH_SHAVING_NB", "ALG_SHAVING_NB", "ALG_SHAVING_CHANGE_NB", "ALG_SHAVING_NO_CHANGE_NB",
    "PROPAGATOR_ENTAILMENT_NB", "PROPAGATOR_FILTER_NB", "PROPAGATOR_FILTER_NO_CHANGE_NB",
    "PROPAGATOR_INCONSISTENCY_NB", "SOLVER_BACKTRACK_NB", "SOLVER_CHOICE_NB", "SOLVER_CHOICE_DEPTH",
    "SOLVER_SOLUTION_NB",
]


def split_model(model, var, k):
    """Independent partition of a model on variable `var` into min(k, size) parts (the C12 reference)."""
    d = model["idx"][var]
    a, b = model["doms"][d]
    size = b - a + 1
    k = max(1, min(k, size))
    parts = []
    lo = a
    for i in range(k):
        hi = lo + size // k - (0 if i < size % k else 1)
        m = {"doms": [list(x) for x in model["doms"]], "idx": list(model["idx"]), "off": list(model["off"]),
             "props": [[list(vs), n, list(p)] for vs, n, p in model["props"]]}
        m["doms"][d] = [lo, hi]
        parts.append(m)
        lo = hi + 1
    return parts


def gen_mp_case(rnd, opts=None):
    """A model, a split (variable, k) and a configuration; parts built with the real Problem.split."""
    o = {"repeat": True, "gcc_zero_cap": False, "circuit": 0.0, "max_doms": 4, "max_props": 3,
         "widths": [1, 2, 2, 3, 3, 4]}
    o.update(opts or {})
    while True:
        model, tags = gen.gen_model(rnd, o)
        if 2 <= O.model_points(model) <= 4000:
            break
    var = rnd.randrange(len(model["idx"]))
    k = rnd.randint(1, 5)
    cfg = gen.gen_config(rnd, model)
    return {"model": model, "var": var, "k": k, "cfg": cfg}


def build_workers(case):
    """Real Problem.split + one BacktrackSolver per part. Returns (solvers, parts as models)."""
    from framework import nucsmap as M

    p = M.build_problem(case["model"])
    parts = p.split(case["k"], case["var"])
    solvers = [M.build_solver(None, case["cfg"], problem=q) for q in parts]
    return solvers


def sequential(case, op, var=None):
    from framework import nucsmap as M

    s = M.build_solver(case["model"], case["cfg"])
    if op == "solve":
        return [M.tup(x) for x in s.solve()], s
    r = s.minimize(var) if op == "minimize" else s.maximize(var)
    return (None if r is None else M.tup(r)), s


def expected_stats(streams):
    """Sum (max for depth) of the workers' final statistics = the statistics carried by each completion marker."""
    tot = [0] * 13
    for st in streams:
        final = st[-1][2]  # live array after the worker finished
        for i in range(13):
            if i == 11:
                tot[i] = max(tot[i], int(final[i]))
            else:
                tot[i] += int(final[i])
    return tot


def judge_mp(case, op, ovar, got, seq, streams=None, stats=None, where=""):
    """Compares one multiprocessing outcome with the sequential reference. Returns failures."""
    fails = []
    model = case["model"]
    if op == "solve":
        g, e = collections.Counter(got), collections.Counter(seq)
        for s in got:
            why = O.check_solution(model, list(s))
            if why:
                fails.append({"prop": "C01", "kind": "invalid_solution_mp", "detail": "%r: %s" % (list(s), why)})
                break
        if g != e:
            extra = [list(s) for s in g if g[s] > e.get(s, 0)][:3]
            missing = [list(s) for s in e if e[s] > g.get(s, 0)][:3]
            fails.append({"prop": "C11", "kind": "solution_multiset_differs",
                          "detail": "%s: multiprocessing yielded %d, sequential %d; extra=%r missing=%r" % (
                              where, len(got), len(seq), extra, missing)})
    else:
        if got is not None:
            why = O.check_solution(model, list(got))
            if why:
                fails.append({"prop": "C01", "kind": "invalid_solution_mp", "detail": "%r: %s" % (list(got), why)})
        if (got is None) != (seq is None):
            fails.append({"prop": "C11", "kind": "none_mismatch",
                          "detail": "%s: multiprocessing returned %r, sequential %r" % (where, got, seq)})
            fails.append({"prop": "C03", "kind": "mp_none_mismatch",
                          "detail": "%s: multiprocessing returned %r, sequential %r" % (where, got, seq)})
        elif got is not None and got[ovar] != seq[ovar]:
            fails.append({"prop": "C11", "kind": "optimum_differs",
                          "detail": "%s: multiprocessing objective %d, sequential %d" % (where, got[ovar], seq[ovar])})
            fails.append({"prop": "C03", "kind": "mp_not_optimal",
                          "detail": "%s: multiprocessing objective %d, sequential %d" % (where, got[ovar], seq[ovar])})
    if stats is not None and streams is not None:
        exp = expected_stats(streams)
        gotl = [int(stats[k]) for k in STAT_KEYS]
        if gotl != exp:
            bad = [(STAT_KEYS[i], gotl[i], exp[i]) for i in range(13) if gotl[i] != exp[i]]
            f = {"kind": "aggregated_statistics_differ",
                 "detail": "%s: (counter, reported, sum over workers' final statistics) %r" % (where, bad[:5])}
            fails.append(dict(f, prop="C11"))
            fails.append(dict(f, prop="C17"))
    return fails


# ---------------------------------------------------------------------------------------------- shim worker
def run_mp_shim(task):
    from framework.planes import mpshim

    t0 = time.time()
    want = set(task["props"])
    rnd = random.Random(task["seed"])
    res = {"evals": 0, "cases": 0, "hashes": [], "nontrivial": [], "fails": [], "fail_counts": {}, "samples": [],
           "counters": {}, "mode": MODE, "exhaustive_cases": 0, "sampled_cases": 0}
    limit = task.get("enum_limit", 5000)
    nsample = task.get("samples", 400)
    deadline = t0 + task.get("deadline_s", 1e9)

    def cnt(k, n=1):
        res["counters"][k] = res["counters"].get(k, 0) + n

    def add_fail(f, case, extra):
        if f["prop"] not in want:
            return
        key = "%s|%s" % (f["prop"], f["kind"])
        c = res["fail_counts"].get(key, 0)
        res["fail_counts"][key] = c + 1
        if c < 5:
            w = dict(f)
            w["mpcase"] = case
            w["mode"] = MODE
            w.update(extra)
            res["fails"].append(w)

    for it in range(task["count"]):
        if time.time() > deadline:
            res["truncated"] = True
            break
        case = gen_mp_case(rnd, task.get("gen"))
        ops = [("solve", None)]
        nv = len(case["model"]["idx"])
        ov = rnd.randrange(nv)
        ops.append((rnd.choice(["minimize", "maximize"]), ov))
        for op, ovar in ops:
            progress.mark({"mpcase": case, "op": op, "ovar": ovar})
            try:
                seq, _ = sequential(case, op, ovar)
                solvers = build_workers(case)
                streams = mpshim.record_streams(solvers, op, ovar)
            except Exception as e:
                add_fail({"prop": "C11", "kind": "worker_raised:" + type(e).__name__, "detail": str(e)[:300]}, case,
                         {"op": op, "ovar": ovar})
                continue
            res["cases"] += 1
            lengths = [len(s) for s in streams]
            total = mpshim.count_interleavings(lengths)
            cnt("workers_%d" % len(lengths))
            if any(l == 1 for l in lengths):
                cnt("cases_with_a_worker_without_solution")
            if total <= limit:
                scheds = mpshim.all_interleavings(lengths)
                res["exhaustive_cases"] += 1
                exhaustive = True
            else:
                scheds = mpshim.corner_schedules(lengths) + [mpshim.random_schedule(lengths, rnd)
                                                             for _ in range(nsample)]
                res["sampled_cases"] += 1
                exhaustive = False
            nsched = 0
            distinct_orders = set()
            first_fail = None
            for sched in scheds:
                for stats_mode in ("snapshot", "live"):
                    solvers2 = solvers  # the reducer only needs len() and attribute lookup
                    out = mpshim.run_reducer(solvers2, streams, sched, op, ovar, stats_mode)
                    res["evals"] += 1
                    nsched += 1
                    fails = []
                    if out["error"]:
                        fails.append({"prop": "C11", "kind": "reducer_" + out["error"].split(":")[0],
                                      "detail": out["error"]})
                    else:
                        if out["leftover"]:
                            fails.append({"prop": "C11", "kind": "returned_before_all_workers_finished",
                                          "detail": "%d messages left in the queue when the call returned" %
                                                    out["leftover"]})
                        got = out["results"] if op == "solve" else out["result"]
                        fails += judge_mp(case, op, ovar, got, seq, streams, out.get("stats"),
                                          where="schedule %r stats=%s" % (sched, stats_mode))
                        if "stats_error" in out:
                            fails.append({"prop": "C11", "kind": "get_statistics_raised",
                                          "detail": out["stats_error"]})
                    if fails and first_fail is None:
                        first_fail = (fails, sched, stats_mode)
                distinct_orders.add(tuple(sched))
                if first_fail is not None and nsched > 50:
                    break
            cnt("interleavings_run", len(distinct_orders))
            if exhaustive:
                cnt("interleavings_total_of_exhaustive_cases", total)
            h = case_hash([case, op, ovar])
            res["hashes"].append(h)
            if len(lengths) >= 2 and sum(lengths) >= 3:
                res["nontrivial"].append(h)
            if len(res["samples"]) < 4 and len(lengths) >= 2 and it % 5 == 0:
                res["samples"].append({"case": case, "op": op, "stream_lengths": lengths, "interleavings": total,
                                       "exhaustive": exhaustive})
            if first_fail is not None:
                fails, sched, stats_mode = first_fail
                for f in fails:
                    add_fail(f, case, {"op": op, "ovar": ovar, "schedule": sched, "stats_mode": stats_mode,
                                       "stream_lengths": lengths})
        # ---- one solver object used for several calls (the workers are forked from the caller's solvers, which no call
        # changes: every call on the same MultiprocessingSolver must answer like the first)
        try:
            by_op = {}
            for op, ovar in ops:
                by_op[op] = (ovar, mpshim.record_streams(build_workers(case), op, ovar), sequential(case, op, ovar)[0])
            oop = ops[1][0]
            nsol = len(by_op["solve"][2])
            plans = [["solve", "solve"], [oop, "solve"], ["solve", oop], [oop, oop]]
            if nsol >= 1:
                plans.append([("solve", rnd.randint(1, nsol)), "solve"])
                plans.append([("solve", 1), oop, "solve"])
            for plan in plans:
                steps = []
                for x in plan:
                    op, ab = (x, None) if isinstance(x, str) else x
                    ovar, streams, seq = by_op[op]
                    steps.append({"op": op, "var": ovar, "streams": streams, "abandon": ab,
                                  "schedule": mpshim.random_schedule([len(q) for q in streams], rnd)})
                outs = mpshim.run_reducer_history(build_workers(case), steps, rnd.choice(("snapshot", "live")))
                cnt("reuse_histories")
                res["evals"] += 1
                for k, (st, out) in enumerate(zip(steps, outs)):
                    where = "call %d of history %r on one solver object, schedule %r" % (k + 1, plan, st["schedule"])
                    fails = []
                    if out["error"]:
                        fails.append({"prop": "C11", "kind": "reused_solver_reducer_" + out["error"].split(":")[0],
                                      "detail": where + ": " + out["error"]})
                    elif out["abandoned"]:
                        e = collections.Counter(by_op["solve"][2])
                        g = collections.Counter(out["results"])
                        if any(g[t] > e.get(t, 0) for t in g):
                            fails.append({"prop": "C11", "kind": "reused_solver_solution_multiset_differs",
                                          "detail": where + ": partial enumeration is not a sub-multiset"})
                    else:
                        cnt("reuse_calls_judged")
                        if out["leftover"]:
                            fails.append({"prop": "C11", "kind": "returned_before_all_workers_finished",
                                          "detail": "%s: %d messages left" % (where, out["leftover"])})
                        got = out["results"] if st["op"] == "solve" else out["result"]
                        fails += [dict(f, kind="reused_solver_" + f["kind"]) for f in
                                  judge_mp(case, st["op"], st["var"], got, by_op[st["op"]][2], st["streams"],
                                           out.get("stats"), where=where)]
                        if "stats_error" in out:
                            fails.append({"prop": "C11", "kind": "reused_solver_get_statistics_raised",
                                          "detail": where + ": " + out["stats_error"]})
                    for f in fails:
                        add_fail(f, case, {"history": [x if isinstance(x, str) else list(x) for x in plan], "call_no": k + 1,
                                           "ovar": ops[1][1]})
        except Exception as e:
            add_fail({"prop": "C11", "kind": "reuse_history_raised:" + type(e).__name__, "detail": str(e)[:300]}, case, {})
    res["wall"] = time.time() - t0
    res["task"] = {k: v for k, v in task.items() if k != "props"}
    return res


# ---------------------------------------------------------------------------------------- real-process worker
def run_mp_real(task):
    """Real processes with injected per-message delays (no faults)."""
    from framework.planes import mpreal

    import nucs.solvers.multiprocessing_solver as mps

    t0 = time.time()
    want = set(task["props"])
    rnd = random.Random(task["seed"])
    res = {"evals": 0, "cases": 0, "hashes": [], "nontrivial": [], "fails": [], "fail_counts": {}, "samples": [],
           "counters": {}, "mode": MODE, "solutions_checked": 0}
    mpreal.install()
    deadline = t0 + task.get("deadline_s", 1e9)

    def cnt(k, n=1):
        res["counters"][k] = res["counters"].get(k, 0) + n

    for it in range(task["count"]):
        if time.time() > deadline:
            res["truncated"] = True
            break
        case = gen_mp_case(rnd, task.get("gen"))
        nv = len(case["model"]["idx"])
        ov = rnd.randrange(nv)
        for op, ovar in (("solve", None), (rnd.choice(["minimize", "maximize"]), ov)):
            progress.mark({"mpcase": case, "op": op, "ovar": ovar})
            seq, _ = sequential(case, op, ovar)
            solvers = build_workers(case)
            delays = {}
            if task.get("delays", True):
                for w in range(len(solvers)):
                    delays[w] = [rnd.choice([0, 0, 0.001, 0.005, 0.02]) for _ in range(4)]
            if task.get("slow_worker") and len(solvers) >= 2 and it < task.get("slow_cases", 2):
                # one worker stays silent for longer than any polling period while the others finish at once: nobody
                # failed, so the call must still wait for it and return everything
                delays[rnd.randrange(len(solvers))] = [task["slow_worker"], 0, 0, 0]
                cnt("cases_with_a_silent_worker")
            mpreal.set_plan(delays=delays)
            ms = mps.MultiprocessingSolver(solvers, log_level="ERROR")

            def call(ms=ms, op=op, ovar=ovar):
                if op == "solve":
                    return [tuple(int(x) for x in s) for s in ms.solve()]
                r = ms.minimize(ovar) if op == "minimize" else ms.maximize(ovar)
                return None if r is None else tuple(int(x) for x in r)

            box = mpreal.call_with_oracle(call, wall_cap=task.get("wall_cap", 90))
            res["evals"] += 1
            res["cases"] += 1
            cnt("workers_%d" % len(solvers))
            fails = []
            if box["how"] == "returned":
                got = box["value"]
                if op == "solve":
                    res["solutions_checked"] += len(got)
                else:
                    res["solutions_checked"] += 1 if got is not None else 0
                # expected statistics: sequential runs of each part
                try:
                    stats = ms.get_statistics()
                except Exception as e:
                    stats = None
                    fails.append({"prop": "C11", "kind": "get_statistics_raised", "detail": str(e)[:200]})
                exp_streams = None
                if stats is not None:
                    from framework.planes import mpshim

                    exp_streams = mpshim.record_streams(build_workers(case), op, ovar)
                fails += judge_mp(case, op, ovar, got, seq, exp_streams, stats, where="real processes")
                if it < task.get("reuse_cases", 3) and not fails:
                    # the same solver object once more (workers are forked again from the caller's untouched solvers)
                    box2 = mpreal.call_with_oracle(call, wall_cap=task.get("wall_cap", 90))
                    cnt("reuse_calls_real_processes")
                    if box2["how"] == "returned":
                        try:
                            stats2 = ms.get_statistics()
                        except Exception as e:
                            stats2 = None
                            fails.append({"prop": "C11", "kind": "reused_solver_get_statistics_raised",
                                          "detail": str(e)[:200]})
                        fails += [dict(f, kind="reused_solver_" + f["kind"]) for f in
                                  judge_mp(case, op, ovar, box2["value"], seq, exp_streams, stats2,
                                           where="real processes, second call on the same solver object")]
                    elif box2["how"] == "raised":
                        fails.append({"prop": "C11", "kind": "reused_solver_raised_without_fault", "detail": box2["exc"]})
                    elif box2["how"] == "deadlock":
                        fails.append({"prop": "C11", "kind": "reused_solver_deadlock_without_fault",
                                      "detail": box2["detail"]})
            elif box["how"] == "raised":
                fails.append({"prop": "C11", "kind": "raised_without_fault", "detail": box["exc"]})
            elif box["how"] == "deadlock":
                fails.append({"prop": "C11", "kind": "deadlock_without_fault", "detail": box["detail"]})
            else:
                cnt("undecided_wall_cap")
            h = case_hash([case, op, ovar])
            res["hashes"].append(h)
            if len(solvers) >= 2:
                res["nontrivial"].append(h)
            if len(res["samples"]) < 3 and len(solvers) >= 2:
                res["samples"].append({"case": case, "op": op, "how": box["how"], "wall": round(box.get("wall", 0), 3)})
            for f in fails:
                if f["prop"] in want:
                    key = "%s|%s" % (f["prop"], f["kind"])
                    c = res["fail_counts"].get(key, 0)
                    res["fail_counts"][key] = c + 1
                    if c < 5:
                        res["fails"].append(dict(f, mpcase=case, op=op, ovar=ovar, mode=MODE, real=True))
    res["wall"] = time.time() - t0
    res["task"] = {k: v for k, v in task.items() if k != "props"}
    return res


def c01_jobs(tier, seed):
    q = tier == "quick"
    jobs = []
    for k in range(2 if q else 6):
        jobs.append(Job("framework.props.mpfamily", "run_mp_real",
                        {"props": ["C01"], "seed": seed * 977 + k, "count": 12 if q else 60,
                         "deadline_s": 80 if q else 500},
                        mode="jit" if k % 2 == 0 else "interp", timeout=300 if q else 1200, tag="mpreal:%d" % k,
                        stall_s=150))
    return jobs


def aggregate(rep, jobs, prefix="mp."):
    hashes, nontrivial = set(), set()
    for j in jobs:
        if j.status != "ok":
            rep.job_problem(j)
            if not j.result:
                continue
        r = j.result
        rep.evaluations += r["evals"]
        hashes.update(r["hashes"])
        nontrivial.update(r["nontrivial"])
        rep.count(prefix + "cases", r["cases"])
        rep.count(prefix + "runs_" + r["mode"], r["evals"])
        if "solutions_checked" in r:
            rep.count("solutions_checked_against_O-sem", r["solutions_checked"])
            rep.count(prefix + "solutions_checked", r["solutions_checked"])
        for k in ("exhaustive_cases", "sampled_cases"):
            if k in r:
                rep.count(prefix + k, r[k])
        for k, v in r["counters"].items():
            rep.count(prefix + k, v)
        for s in r["samples"]:
            rep.sample(s)
        for f in r["fails"]:
            rep.violation(f)
        for k, v in r["fail_counts"].items():
            rep.count("failures." + k, v)
        rep.add_class("stream:" + j.func, r["evals"])
    if isinstance(rep.distinct, set):
        rep.distinct |= nontrivial
    else:
        rep.distinct = nontrivial
    rep.counters[prefix + "distinct_cases"] = len(hashes)


def replay_mp(task):
    """Re-runs one recorded multiprocessing case (shim schedule or real processes)."""
    from framework.planes import mpshim

    w = task["witness"]
    if "history" in w:
        # several calls on one solver object: re-run the recorded history under a few seeded schedules
        case = w["mpcase"]
        fails = []
        for seed in range(5):
            rnd = random.Random(seed)
            steps = []
            refs = []
            for x in w["history"]:
                op, ab = (x, None) if isinstance(x, str) else x
                ovar = w.get("ovar") if op != "solve" else None
                if op != "solve" and ovar is None:
                    ovar = 0
                streams = mpshim.record_streams(build_workers(case), op, ovar)
                refs.append(sequential(case, op, ovar)[0])
                steps.append({"op": op, "var": ovar, "streams": streams, "abandon": ab,
                              "schedule": mpshim.random_schedule([len(q) for q in streams], rnd)})
            outs = mpshim.run_reducer_history(build_workers(case), steps)
            for k, (st, out, ref) in enumerate(zip(steps, outs, refs)):
                if out["error"]:
                    fails.append({"prop": "C11", "kind": "reused_solver_reducer_" + out["error"].split(":")[0],
                                  "detail": "call %d: %s" % (k + 1, out["error"])})
                elif not out["abandoned"]:
                    got = out["results"] if st["op"] == "solve" else out["result"]
                    fails += [dict(f, kind="reused_solver_" + f["kind"]) for f in
                              judge_mp(case, st["op"], st["var"], got, ref, st["streams"], out.get("stats"),
                                       where="replay, call %d" % (k + 1))]
            if fails:
                break
        return {"fails": [f for f in fails if f["prop"] == task["prop"]]}
    case, op, ovar = w["mpcase"], w["op"], w.get("ovar")
    seq, _ = sequential(case, op, ovar)
    solvers = build_workers(case)
    streams = mpshim.record_streams(solvers, op, ovar)
    lengths = [len(s) for s in streams]
    sched = w.get("schedule") or mpshim.corner_schedules(lengths)[0]
    fails = []
    for stats_mode in ("snapshot", "live"):
        out = mpshim.run_reducer(solvers, streams, sched, op, ovar, stats_mode)
        if out["error"]:
            fails.append({"prop": "C11", "kind": "reducer_" + out["error"].split(":")[0], "detail": out["error"]})
            continue
        if out["leftover"]:
            fails.append({"prop": "C11", "kind": "returned_before_all_workers_finished", "detail": str(out["leftover"])})
        got = out["results"] if op == "solve" else out["result"]
        fails += judge_mp(case, op, ovar, got, seq, streams, out.get("stats"), where="replay")
    return {"fails": [f for f in fails if f["prop"] == task["prop"]]}


# ------------------------------------------------------------------------------------------------ C18 fault grid
FAULT_MODELS = [
    {"doms": [[0, 3], [0, 1]], "idx": [0, 1], "off": [0, 0], "props": [[[0, 1], "dummy", []]]},
    {"doms": [[0, 3], [0, 2]], "idx": [0, 1, 1], "off": [0, 0, 1], "props": [[[0, 1], "affine_leq", [1, 1, 3]]]},
]
MANNERS = ["sigkill", "exit1", "exit0", "raise"]


def fault_grid(tier):
    """The complete fault space for the small models used: (model, k, op, worker, point, manner)."""
    from framework.planes import mpshim

    cases = []
    for mi, model in enumerate(FAULT_MODELS):
        for k in (1, 2, 3, 4):
            for op, ovar in (("solve", None), ("minimize", 1), ("maximize", 0)):
                case = {"model": model, "var": 0, "k": k, "cfg": {"calg": "bc", "vh": "first", "dh": "min"}}
                lengths = [len(s) for s in mpshim.record_streams(build_workers(case), op, ovar)]
                for w, ln in enumerate(lengths):
                    points = [("at_start", None)]
                    for j in range(ln - 1):
                        points.append(("before_message", j))
                        points.append(("after_message", j))
                    points.append(("before_marker", None))
                    for point, idx in points:
                        for manner in MANNERS:
                            cases.append({"mi": mi, "case": case, "op": op, "ovar": ovar, "lengths": lengths,
                                          "fault": {"worker": w, "point": point, "index": idx, "manner": manner}})
    return cases


def run_mp_faults(task):
    from framework.planes import mpreal, mpshim

    import nucs.solvers.multiprocessing_solver as mps

    t0 = time.time()
    res = {"evals": 0, "fails": [], "fail_counts": {}, "samples": [], "counters": {}, "hashes": [], "mode": MODE,
           "undecided": []}
    mpreal.install()
    grid = fault_grid(task.get("tier", "quick"))
    mine = [c for i, c in enumerate(grid) if i % task["nchunks"] == task["chunk"]]
    if task.get("limit"):
        rnd = random.Random(task.get("seed", 0) * 7 + task["chunk"])
        rnd.shuffle(mine)
        mine = mine[: task["limit"]]
    res["grid_size"] = len(grid)
    deadline = t0 + task.get("deadline_s", 1e9)

    def cnt(k, n=1):
        res["counters"][k] = res["counters"].get(k, 0) + n

    for c in mine:
        if time.time() > deadline:
            res["truncated"] = True
            break
        progress.mark({"fault_case": c})
        case, op, ovar, fault = c["case"], c["op"], c["ovar"], c["fault"]
        seq, _ = sequential(case, op, ovar)
        solvers = build_workers(case)
        # what the surviving workers alone would deliver
        streams = mpshim.record_streams(build_workers(case), op, ovar)
        surv = collections.Counter()
        for w, st in enumerate(streams):
            if w != fault["worker"]:
                for m in st:
                    if m[1] is not None:
                        surv[tuple(int(x) for x in m[1])] += 1
        mpreal.set_plan(fault=fault)
        ms = mps.MultiprocessingSolver(solvers, log_level="ERROR")

        def call(ms=ms, op=op, ovar=ovar):
            if op == "solve":
                return [tuple(int(x) for x in s) for s in ms.solve()]
            r = ms.minimize(ovar) if op == "minimize" else ms.maximize(ovar)
            return None if r is None else tuple(int(x) for x in r)

        devnull = os.open(os.devnull, os.O_WRONLY)
        saved_err = os.dup(2)
        os.dup2(devnull, 2)  # children print tracebacks for the injected failures
        try:
            box = mpreal.call_with_oracle(call, wall_cap=task.get("wall_cap", 120), timed_patience=60.0)
        finally:
            os.dup2(saved_err, 2)
            os.close(saved_err)
            os.close(devnull)
        mpreal.set_plan()
        res["evals"] += 1
        cnt("outcome." + box["how"])
        cnt("manner.%s.%s" % (fault["manner"], box["how"]))
        cnt("point.%s" % fault["point"])
        cnt("op.%s" % op)
        cnt("workers_%d" % len(solvers))
        res["hashes"].append(case_hash([c["mi"], case["k"], op, fault]))
        fails = []
        if box["how"] == "deadlock":
            fails.append({"prop": "C18", "kind": "caller_blocked_forever", "detail": box["detail"]})
        elif box["how"] == "undecided":
            res["undecided"].append({"fault": fault, "k": case["k"], "op": op, "detail": box["detail"]})
        elif box["how"] == "returned":
            got = box["value"]
            if op == "solve":
                g, e = collections.Counter(got), collections.Counter(seq)
                if any(g[s] > e.get(s, 0) for s in g):
                    fails.append({"prop": "C18", "kind": "returned_results_not_from_the_problem",
                                  "detail": "got %r, sequential %r" % (sorted(g.items())[:5], len(seq))})
                if any(g.get(s, 0) < n for s, n in surv.items()):
                    fails.append({"prop": "C18", "kind": "returned_without_all_surviving_results",
                                  "detail": "surviving workers deliver %d solutions, %d returned" % (
                                      sum(surv.values()), len(got))})
            else:
                if got is not None and O.check_solution(case["model"], list(got)) is not None:
                    fails.append({"prop": "C18", "kind": "returned_invalid_solution", "detail": repr(got)})
                if got is None and surv:
                    fails.append({"prop": "C18", "kind": "returned_none_although_survivors_found_solutions",
                                  "detail": "surviving workers found %d improving solutions" % sum(surv.values())})
        if len(res["samples"]) < 4 and res["evals"] % 9 == 1:
            res["samples"].append({"k": case["k"], "op": op, "stream_lengths": c["lengths"], "fault": fault,
                                   "outcome": box["how"], "exc": box.get("exc"), "wall": round(box.get("wall", 0), 2)})
        for f in fails:
            key = "%s|%s" % (f["kind"], fault["manner"])
            n = res["fail_counts"].get(key, 0)
            res["fail_counts"][key] = n + 1
            if n < 4:
                res["fails"].append(dict(f, fault_case={"model_index": c["mi"], "k": case["k"], "op": op,
                                                        "ovar": ovar, "fault": fault, "stream_lengths": c["lengths"]},
                                         mode=MODE))
    res["wall"] = time.time() - t0
    return res


def silent_survivor_grid(tier):
    """A worker dies abnormally, a survivor's message reaches the parent *after* that death, and then every survivor stays
    alive and silent for a long time (a long refutation, or a put blocked on a lock the victim held)."""
    cases = []
    for mi in (0, 1):
        for k in (2, 3):
            for op, ovar in (("solve", None), ("minimize", 1), ("maximize", 0)):
                for manner in ("sigkill", "exit1", "raise"):
                    for victim in range(k):
                        cases.append({"mi": mi, "k": k, "op": op, "ovar": ovar, "manner": manner, "victim": victim})
    return cases


def run_mp_silent_survivor(task):
    from framework.planes import mpreal

    import nucs.solvers.multiprocessing_solver as mps

    t0 = time.time()
    res = {"evals": 0, "fails": [], "fail_counts": {}, "samples": [], "counters": {}, "hashes": [], "mode": MODE,
           "undecided": [], "grid_size": 0}
    mpreal.install()
    grid = task.get("grid") or silent_survivor_grid(task.get("tier", "quick"))
    res["grid_size"] = len(grid)
    mine = [c for i, c in enumerate(grid) if i % task["nchunks"] == task["chunk"]]
    if task.get("limit"):
        rnd = random.Random(task.get("seed", 0) * 11 + task["chunk"])
        rnd.shuffle(mine)
        mine = mine[: task["limit"]]
    silent, patience = task.get("silent_s", 70.0), task.get("patience_s", 25.0)

    def cnt(k, n=1):
        res["counters"][k] = res["counters"].get(k, 0) + n

    for c in mine:
        progress.mark({"silent_survivor_case": c})
        case = {"model": FAULT_MODELS[c["mi"]], "var": 0, "k": c["k"], "cfg": {"calg": "bc", "vh": "first", "dh": "min"}}
        solvers = build_workers(case)
        k = len(solvers)
        victim = c["victim"] % k
        # the victim lives long enough for all workers to be observed alive, sends one message and dies; every survivor
        # sends its first message one second later and is then silent for `silent` seconds
        delays = {str(w): ([0.6] if w == victim else [1.6, silent]) for w in range(k)}
        fault = {"worker": victim, "point": "after_message", "index": 0, "manner": c["manner"]}
        mpreal.set_plan(delays=delays, fault=fault)
        ms = mps.MultiprocessingSolver(solvers, log_level="ERROR")
        op, ovar = c["op"], c["ovar"]

        def call(ms=ms, op=op, ovar=ovar):
            if op == "solve":
                return [tuple(int(x) for x in s) for s in ms.solve()]
            r = ms.minimize(ovar) if op == "minimize" else ms.maximize(ovar)
            return None if r is None else tuple(int(x) for x in r)

        devnull = os.open(os.devnull, os.O_WRONLY)
        saved_err = os.dup(2)
        os.dup2(devnull, 2)
        try:
            box = mpreal.call_with_oracle(call, wall_cap=silent + 40, timed_patience=60.0, expected_children=k,
                                          exit_patience=patience)
        finally:
            os.dup2(saved_err, 2)
            os.close(saved_err)
            os.close(devnull)
        mpreal.set_plan()
        res["evals"] += 1
        cnt("silent_survivor.cases")
        cnt("silent_survivor.outcome." + box["how"])
        res["hashes"].append(case_hash(["silent", c]))
        if box.get("first_exit_after") is not None:
            cnt("silent_survivor.death_observed_before_the_call_ended")
        fails = []
        if box["how"] in ("blocked_after_death", "deadlock"):
            fails.append({"prop": "C18", "kind": "caller_blocked_while_survivors_are_silent", "detail": box["detail"]})
        elif box["how"] == "undecided":
            res["undecided"].append({"silent_survivor_case": c, "detail": box["detail"]})
        elif box["how"] == "returned" and k > 1:
            # the victim never announced completion and the survivors had not finished: a normal return within the
            # patience window cannot contain the survivors' remaining results
            pass
        if len(res["samples"]) < 2:
            res["samples"].append({"silent_survivor_case": c, "outcome": box["how"], "exc": box.get("exc"),
                                   "wall": round(box.get("wall", 0), 2)})
        for f in fails:
            key = "%s|%s" % (f["kind"], c["manner"])
            n = res["fail_counts"].get(key, 0)
            res["fail_counts"][key] = n + 1
            if n < 4:
                res["fails"].append(dict(f, silent_survivor_case=c, mode=MODE))
    res["wall"] = time.time() - t0
    return res


def midwrite_grid(tier):
    """A worker is SIGKILLed while the consumer is slow: with small messages (one atomic pipe write each) and with messages far
    larger than PIPE_BUF, so that the victim's feeder thread is blocked in the middle of a message when it dies."""
    nvs = [0, 20000] if tier == "quick" else [0, 900, 20000, 40000]
    return [{"nv": nv, "victim": v, "pause_s": 3.0} for nv in nvs for v in ("writer", "waiter")]


def _in_write_syscall(pid):
    """True when some thread of the process sits in write(2) (x86-64 syscall 1): the feeder thread blocked on a full pipe."""
    try:
        for t in os.listdir("/proc/%d/task" % pid):
            with open("/proc/%d/task/%s/syscall" % (pid, t)) as f:
                if f.read().split()[:1] == ["1"]:
                    return True
    except OSError:
        pass
    return False


def run_mp_midwrite(task):
    import multiprocessing
    import signal

    from framework.planes import mpreal
    from nucs.problems.problem import Problem
    from nucs.propagators import propagators as PP
    from nucs.solvers.backtrack_solver import BacktrackSolver

    import nucs.solvers.multiprocessing_solver as mps

    t0 = time.time()
    res = {"evals": 0, "fails": [], "fail_counts": {}, "samples": [], "counters": {}, "hashes": [], "mode": MODE,
           "undecided": [], "grid_size": 0}

    def cnt(k, n=1):
        res["counters"][k] = res["counters"].get(k, 0) + n

    for c in task["cases"]:
        progress.mark({"midwrite_case": c})
        nv = c["nv"]
        p = Problem([(0, 1)] * 8 + [(0, 0)] * nv)
        p.add_propagator(([0, 1], PP.ALG_DUMMY, []))
        list(BacktrackSolver(Problem([(0, 1)] * 2), log_level="ERROR").solve())  # compiled code is inherited through fork
        ms = mps.MultiprocessingSolver([BacktrackSolver(q, log_level="ERROR") for q in p.split(2, 0)], log_level="ERROR")
        info = {}

        def call(ms=ms, c=c, info=info):
            n = 0
            for s in ms.solve():
                n += 1
                if n == 1:
                    info["message_bytes"] = int(s.nbytes)
                    time.sleep(c["pause_s"])  # a slow consumer: the pipe under the queue fills up
                    kids = sorted(multiprocessing.active_children(), key=lambda k: k.pid)
                    writers = [k for k in kids if _in_write_syscall(k.pid)]
                    info["writers"] = len(writers)
                    if c["victim"] == "writer":
                        pick = writers or kids
                    else:
                        pick = [k for k in kids if k not in writers] or kids
                    if pick:
                        os.kill(pick[0].pid, signal.SIGKILL)
                        info["killed"] = True
            return n

        devnull = os.open(os.devnull, os.O_WRONLY)
        saved_err = os.dup(2)
        os.dup2(devnull, 2)
        try:
            box = mpreal.call_with_oracle(call, wall_cap=90, timed_patience=40.0, expected_children=2, exit_patience=25.0)
        finally:
            os.dup2(saved_err, 2)
            os.close(saved_err)
            os.close(devnull)
        res["evals"] += 1
        big = info.get("message_bytes", 0) > 4096
        cnt("midwrite.cases")
        cnt("midwrite.%s.%s" % ("large_messages" if big else "small_messages", box["how"]))
        if info.get("writers"):
            cnt("midwrite.victim_chosen_with_a_feeder_thread_blocked_in_write")
        res["hashes"].append(case_hash(["midwrite", c]))
        w = dict(c, message_bytes=info.get("message_bytes", 0))
        if len(res["samples"]) < 2:
            res["samples"].append({"midwrite_case": w, "outcome": box["how"], "exc": box.get("exc"),
                                   "wall": round(box.get("wall", 0), 2)})
        if not info.get("killed"):
            res["undecided"].append({"midwrite_case": w, "detail": "no worker was alive when the kill was due"})
            continue
        if box["how"] in ("blocked_after_death", "deadlock"):
            names = box.get("blocked_in") or []
            kind = ("caller_blocked_reading_a_partial_message" if any("recv_bytes" in x for x in names)
                    else "caller_blocked_after_a_kill_with_a_slow_consumer")
            key = "%s|%s" % (kind, "large" if big else "small")
            n = res["fail_counts"].get(key, 0)
            res["fail_counts"][key] = n + 1
            res["fails"].append({"prop": "C18", "kind": kind, "detail": "%s; caller stack: %s" % (
                box["detail"], " < ".join(names[:8])), "midwrite_case": w, "blocked_in": names, "mode": MODE})
        elif box["how"] == "undecided":
            res["undecided"].append({"midwrite_case": w, "detail": box["detail"]})
    res["wall"] = time.time() - t0
    return res


def replay_fault(task):
    if "midwrite_case" in task["witness"]:
        c = task["witness"]["midwrite_case"]
        r = run_mp_midwrite({"cases": [{"nv": c["nv"], "victim": c["victim"], "pause_s": c.get("pause_s", 3.0)}]})
        return {"fails": r["fails"], "counters": r["counters"]}
    if "silent_survivor_case" in task["witness"]:
        r = run_mp_silent_survivor({"grid": [task["witness"]["silent_survivor_case"]], "chunk": 0, "nchunks": 1})
        return {"fails": r["fails"], "counters": r["counters"]}
    """Re-runs one recorded fault case through the same oracle."""
    fc = task["witness"]["fault_case"]
    grid = [c for c in fault_grid("thorough") if c["mi"] == fc["model_index"] and c["case"]["k"] == fc["k"]
            and c["op"] == fc["op"] and c["fault"] == fc["fault"]]
    if not grid:
        return {"fails": [{"kind": "not_in_grid", "detail": repr(fc)}]}
    import framework.props.mpfamily as me

    saved = me.fault_grid
    me.fault_grid = lambda tier: grid
    try:
        r = run_mp_faults({"tier": "thorough", "chunk": 0, "nchunks": 1})
    finally:
        me.fault_grid = saved
    return {"fails": r["fails"], "counters": r["counters"]}

"""C09 unit level: value heuristics, cp_put and backtrack called directly on hand-built stacks (both modes)."""
import os
import random
import time

import numpy as np

from framework import branchcheck

MODE = os.environ.get("NUCS_VERIF_MODE", "interp")
MIN, MAX = 0, 1


def _build(rnd, a, b, ndoms, height, t0, d, nprops, nonneg=False):
    stack = np.empty((height, ndoms, 2), dtype=np.int32)
    stack[:] = np.int32(-777)  # garbage above the top must be overwritten by the push
    flags = np.zeros((height, nprops), dtype=bool)
    upd = np.full((height, 2), 999, dtype=np.uint16)
    for L in range(t0 + 1):
        for k in range(ndoms):
            lo = rnd.randint(0 if nonneg else -6, 6)
            stack[L, k] = (lo, lo + rnd.randint(0, 3))
        flags[L] = [rnd.random() < 0.7 for _ in range(nprops)]
    stack[t0, d] = (a, b)
    top = np.array([t0], dtype=np.uint8)
    return stack, flags, upd, top


def run_units(task):
    import nucs.heuristics.heuristics as H
    from nucs.solvers.choice_points import backtrack

    t0w = time.time()
    rnd = random.Random(task["seed"])
    res = {"evals": 0, "calls": 0, "backtracks": 0, "fails": [], "fail_counts": {}, "hashes": [], "nontrivial": [],
           "samples": [], "mode": MODE, "per_heuristic": {}, "var_calls": 0}
    names = {H.DOM_HEURISTIC_MIN_VALUE: "min", H.DOM_HEURISTIC_MAX_VALUE: "max",
             H.DOM_HEURISTIC_SPLIT_LOW: "split_low", H.DOM_HEURISTIC_MID_VALUE: "mid",
             H.DOM_HEURISTIC_MIN_COST: "min_cost"}

    def fail(kind, detail, case):
        key = kind
        c = res["fail_counts"].get(key, 0)
        res["fail_counts"][key] = c + 1
        if c < 5:
            res["fails"].append({"prop": "C09", "kind": kind, "detail": detail, "unit": case, "mode": MODE})

    def one(hidx, a, b, costs_kind=None):
        name = names[hidx]
        ndoms, height, nprops = 3, 8, 4
        t0 = rnd.randint(0, height - 3)
        d = rnd.randrange(ndoms)
        nonneg = name == "min_cost"
        stack, flags, upd, top = _build(rnd, a, b, ndoms, height, t0, d, nprops, nonneg)
        params = np.zeros((1, 0), dtype=np.int64)
        case = {"heuristic": name, "dom": [a, b], "level": t0, "dom_idx": d}
        if name == "min_cost":
            cols = max(int(stack[t0, :, MAX].max()), b) + 1
            rows = []
            for k in range(ndoms):
                if costs_kind == "zeros":
                    row = [0] * cols
                elif costs_kind == "mostly_zeros":
                    row = [0 if rnd.random() < 0.7 else rnd.randint(1, 5) for _ in range(cols)]
                elif costs_kind == "ties":
                    row = [rnd.randint(1, 2) for _ in range(cols)]
                elif costs_kind == "min_low":
                    row = [5] * cols
                    row[a] = 1
                elif costs_kind == "min_high":
                    row = [5] * cols
                    row[b] = 1
                elif costs_kind == "min_inside":
                    row = [5] * cols
                    row[(a + b) // 2 if b - a >= 2 else a] = 1
                else:
                    row = [rnd.randint(1, 9) for _ in range(cols)]
                    if rnd.random() < 0.3:
                        row[rnd.randrange(cols)] = 0
                rows.append(row)
            params = np.array(rows, dtype=np.int64)
            case["costs"] = rows[d]
        pre_doms, pre_flags = stack[t0].copy(), flags[t0].copy()
        below = stack[:t0].copy()
        f = H.DOM_HEURISTIC_FCTS[hidx]
        events = int(f(params, stack, flags, upd, top, d))
        t1 = int(top[0])
        res["calls"] += 1
        res["per_heuristic"][name] = res["per_heuristic"].get(name, 0) + 1
        fails, alts, need = branchcheck.check_decision(pre_doms, pre_flags, t0, stack, flags, upd, t1, d, events)
        for kind, detail in fails:
            fail(kind, "%s on %r: %s" % (name, [a, b], detail), case)
        if not np.array_equal(stack[:t0], below):
            fail("level_below_modified", "%s modified a level below the current one" % name, case)
        if fails:
            return
        # drive backtrack until the level is exhausted
        triggers = np.array([[rnd.randint(0, 7) for _ in range(nprops)] for _ in range(ndoms)], dtype=np.uint8)
        stats = np.zeros(13, dtype=np.int64)
        cur = t1
        while cur > t0:
            queue = np.zeros(nprops, dtype=bool)
            ok = bool(backtrack(stats, flags, upd, top, queue, triggers))
            res["backtracks"] += 1
            if not ok or int(top[0]) != cur - 1:
                fail("backtrack_wrong_pop", "top %d -> %d ok=%s" % (cur, int(top[0]), ok), case)
                return
            cur -= 1
            sd, sf, (dd, nd) = alts[cur]
            if not np.array_equal(stack[cur], sd) or not np.array_equal(flags[cur], sf):
                fail("restored_state_differs_from_saved_alternative", "level %d: %r vs saved %r" % (
                    cur, stack[cur].tolist(), sd.tolist()), case)
            msg = branchcheck.check_queue(queue, flags[cur], triggers, dd, nd)
            if msg:
                fail("watcher_not_queued_after_backtrack", "%s on %r: %s" % (name, [a, b], msg), case)
        if int(stats[9]) != t1 - t0:
            fail("backtrack_counter", "%d backtracks counted for %d pops" % (int(stats[9]), t1 - t0), case)
        h = hash((name, a, b, t0, d, str(case.get("costs"))))
        res["hashes"].append(h)
        if b - a >= 1:
            res["nontrivial"].append(h)
        if len(res["samples"]) < 4 and res["calls"] % 173 == 1:
            res["samples"].append(dict(case, events=events, levels=[stack[L, d].tolist() for L in range(t0, t1 + 1)]))

    # exhaustive: all [a,b], a in [-5,5], width 1..8, every heuristic
    for hidx in sorted(names):
        for a in range(-5, 6):
            for w in range(1, 9):
                if names[hidx] == "min_cost":
                    if a < 0:
                        continue
                    for ck in ("ties", "min_low", "min_high", "min_inside", "random", "zeros", "mostly_zeros"):
                        one(hidx, a, a + w, ck)
                        res["evals"] += 1
                else:
                    for _ in range(2):
                        one(hidx, a, a + w)
                        res["evals"] += 1
    # far from zero: the same decisions on domains whose bounds add up beyond 32 bits (midpoints, value +- 1)
    for hidx in sorted(names):
        if names[hidx] == "min_cost":
            continue
        for T in (2 ** 30, -(2 ** 30) - 3, 1500000000, -1500000000, 2 ** 31 - 100000, -(2 ** 31) + 100000):
            for da in (-2, 0, 1):
                for w in (1, 2, 3, 5, 8, 1000, 70001):
                    one(hidx, T + da, T + da + w)
                    res["evals"] += 1
                    res["far_from_zero"] = res.get("far_from_zero", 0) + 1
    for _ in range(task.get("random", 500)):
        hidx = rnd.choice(sorted(names))
        a = rnd.randint(0 if names[hidx] == "min_cost" else -40, 40)
        one(hidx, a, a + rnd.randint(1, 30), "random")
        res["evals"] += 1
    # random histories of pushes and pops within the stack height (a shadow stack of saved alternatives is the model)
    for hrun in range(task.get("histories", 60)):
        ndoms, height, nprops = 3, 14, 3
        stack = np.full((height, ndoms, 2), -777, dtype=np.int32)
        flags = np.zeros((height, nprops), dtype=bool)
        upd = np.full((height, 2), 999, dtype=np.uint16)
        top = np.zeros(1, dtype=np.uint8)
        for k in range(ndoms):
            lo = rnd.randint(0, 3)
            stack[0, k] = (lo, lo + rnd.randint(2, 9))
        flags[0] = True
        triggers = np.array([[rnd.randint(0, 7) for _ in range(nprops)] for _ in range(ndoms)], dtype=np.uint8)
        stats = np.zeros(13, dtype=np.int64)
        shadow = {}
        cols = int(stack[0, :, MAX].max()) + 1
        costs = np.array([[rnd.randint(1, 5) for _ in range(cols)] for _ in range(ndoms)], dtype=np.int64)
        ops = []
        for step in range(task.get("history_steps", 50)):
            t = int(top[0])
            open_ = [k for k in range(ndoms) if stack[t, k, MIN] < stack[t, k, MAX]]
            push = open_ and t + 2 < height and (t == 0 or rnd.random() < 0.6)
            case = {"history": hrun, "step": step, "ops": ops[-12:]}
            if push:
                d = rnd.choice(open_)
                hidx = rnd.choice(sorted(names))
                pre_d, pre_f = stack[t].copy(), flags[t].copy()
                below = stack[:t].copy()
                # an entailment-like event between decisions: a flag cleared at the current level only
                if rnd.random() < 0.3:
                    flags[t, rnd.randrange(nprops)] = False
                    pre_f = flags[t].copy()
                params = costs if names[hidx] == "min_cost" else np.zeros((1, 0), dtype=np.int64)
                ev = int(H.DOM_HEURISTIC_FCTS[hidx](params, stack, flags, upd, top, d))
                t1 = int(top[0])
                res["calls"] += 1
                ops.append("push:%s:d%d:%d->%d" % (names[hidx], d, t, t1))
                fl, alts, need = branchcheck.check_decision(pre_d, pre_f, t, stack, flags, upd, t1, d, ev)
                for kind, detail in fl:
                    fail("history_" + kind, "%s (history %d step %d)" % (detail, hrun, step), case)
                if not np.array_equal(stack[:t], below):
                    fail("history_level_below_modified", "a decision at level %d changed a lower level" % t, case)
                shadow.update(alts)
                if fl:
                    break
            else:
                queue = np.zeros(nprops, dtype=bool)
                ok = bool(backtrack(stats, flags, upd, top, queue, triggers))
                res["backtracks"] += 1
                ops.append("pop:%d->%d" % (t, int(top[0])))
                if t == 0:
                    if ok:
                        fail("history_backtrack_succeeded_at_level_0", "", case)
                    break
                if not ok or int(top[0]) != t - 1:
                    fail("history_backtrack_wrong_pop", "top %d -> %d ok=%s" % (t, int(top[0]), ok), case)
                    break
                sd, sf, (dd, nd) = shadow.pop(t - 1)
                if not np.array_equal(stack[t - 1], sd) or not np.array_equal(flags[t - 1], sf):
                    fail("history_restored_state_differs_from_saved_alternative",
                         "level %d after %r: %r / flags %r, saved %r / %r" % (
                             t - 1, ops[-6:], stack[t - 1].tolist(), flags[t - 1].tolist(), sd.tolist(), sf.tolist()),
                         case)
                    break
                msg = branchcheck.check_queue(queue, flags[t - 1], triggers, dd, nd)
                if msg:
                    fail("history_watcher_not_queued_after_backtrack", msg, case)
        res["evals"] += 1
        res["hashes"].append(hash(("history", task["seed"], hrun)))
        res["nontrivial"].append(hash(("history", task["seed"], hrun)))
        res["per_heuristic"]["histories"] = res["per_heuristic"].get("histories", 0) + 1
    # backtrack at level 0 fails and changes nothing
    flags = np.ones((4, 2), dtype=bool)
    upd = np.zeros((4, 2), dtype=np.uint16)
    top = np.zeros(1, dtype=np.uint8)
    queue = np.zeros(2, dtype=bool)
    stats = np.zeros(13, dtype=np.int64)
    ok = bool(backtrack(stats, flags, upd, top, queue, np.full((1, 2), 7, dtype=np.uint8)))
    if ok or int(top[0]) != 0 or queue.any() or stats[9] != 0:
        fail("backtrack_at_level_0", "ok=%s top=%d queue=%r counted=%d" % (ok, int(top[0]), queue.tolist(),
                                                                         int(stats[9])), {})
    # variable heuristics: return a non-instantiated decision domain whenever one exists
    vnames = {H.VAR_HEURISTIC_FIRST_NOT_INSTANTIATED: "first", H.VAR_HEURISTIC_SMALLEST_DOMAIN: "smallest",
              H.VAR_HEURISTIC_GREATEST_DOMAIN: "greatest", H.VAR_HEURISTIC_MAX_REGRET: "max_regret"}
    for _ in range(task.get("random", 500)):
        vidx = rnd.choice(sorted(vnames))
        ndoms = rnd.randint(1, 5)
        stack = np.zeros((3, ndoms, 2), dtype=np.int32)
        for k in range(ndoms):
            lo = rnd.randint(0, 4)
            stack[1, k] = (lo, lo + rnd.choice([0, 0, 1, 2, 3]))
        top = np.array([1], dtype=np.uint8)
        dec = sorted(rnd.sample(range(ndoms), rnd.randint(1, ndoms)))
        cols = int(stack[1, :, MAX].max()) + 1
        kind = rnd.choice(["ties", "random"])
        params = np.array([[1 if kind == "ties" else rnd.randint(1, 9) for _ in range(cols)] for _ in range(ndoms)],
                          dtype=np.int64)
        r = int(H.VAR_HEURISTIC_FCTS[vidx](params, np.array(dec, dtype=np.uint16), stack, top))
        res["var_calls"] += 1
        open_ = [k for k in dec if stack[1, k, MIN] < stack[1, k, MAX]]
        case = {"var_heuristic": vnames[vidx], "domains": stack[1].tolist(), "decision": dec, "costs": kind}
        if open_ and r not in open_:
            fail("variable_heuristic_returned_no_open_domain", "%s returned %d, open decision domains %r" % (
                vnames[vidx], r, open_), case)
        elif open_:
            sizes = {k: int(stack[1, k, MAX] - stack[1, k, MIN]) for k in open_}
            if vnames[vidx] == "first" and r != open_[0]:
                fail("first_not_instantiated_not_first", "returned %d, first open is %d" % (r, open_[0]), case)
            if vnames[vidx] == "smallest" and sizes[r] != min(sizes.values()):
                fail("smallest_domain_not_smallest", "returned %d (size-1=%d), sizes %r" % (r, sizes[r], sizes), case)
            if vnames[vidx] == "greatest" and sizes[r] != max(sizes.values()):
                fail("greatest_domain_not_greatest", "returned %d (size-1=%d), sizes %r" % (r, sizes[r], sizes), case)
    res["wall"] = time.time() - t0w
    return res


def aggregate(rep, jobs):
    for j in jobs:
        if j.status != "ok":
            rep.job_problem(j)
            continue
        r = j.result
        rep.evaluations += r["evals"]
        rep.count("unit.heuristic_calls", r["calls"])
        rep.count("unit.backtracks", r["backtracks"])
        rep.count("unit.var_heuristic_calls", r["var_calls"])
        rep.count("unit.decisions_far_from_zero", r.get("far_from_zero", 0))
        rep.count("unit.calls_" + r["mode"], r["calls"])
        for k, v in r["per_heuristic"].items():
            rep.count("unit.heuristic." + k, v)
        if isinstance(rep.distinct, set):
            rep.distinct.update("u%d" % h for h in r["nontrivial"])
        for s in r["samples"][:2]:
            rep.sample(s)
        for f in r["fails"]:
            rep.violation(f)
        for k, v in r["fail_counts"].items():
            rep.count("failures.unit." + k, v)
        rep.add_class("stream:unit_exhaustive_[a,b]_a∈[-5,5]_width≤8:" + r["mode"], r["evals"])

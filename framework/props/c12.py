"""C12 - splitting a problem partitions its search space."""
from framework import common
from framework.common import Job
from framework.report import Report

RULE = ("post-condition wrapper on the real Problem.split: original deep-equal before/after, every sub-problem equal to "
        "the original except the shared domain of the split variable, ranges non-empty, pairwise disjoint with union "
        "[a,b] - exhaustively for a in [-4,4], size 1..9, k in 1..size+3, split variable with its own domain or an "
        "alias with offset; sampled: each sub-problem of random models enumerated on the real solver (step budget), "
        "union == O-brute(original), no solution shared. distinct = distinct (domain, k, variable) resp. (model, k, "
        "variable, cfg); non-trivial = size >= 2 and k >= 2 resp. >= 2 parts and >= 1 solution")


def main(tier, seed):
    q = tier == "quick"
    rep = Report("C12", tier, seed, "exploration", RULE)
    if common.warm_cache("jit") < 0:
        rep.inconclusive.append("JIT cache warm-up failed")
    jobs = []
    for c in range(8 if q else 16):
        jobs.append(Job("framework.props.splitcheck", "run_split",
                        {"seed": seed * 613 + c, "exhaustive": c == 0, "count": 120 if q else 15000,
                         "deadline_s": 60 if q else 600},
                        mode="jit" if c % 3 == 1 else "interp", timeout=300 if q else 1500, tag="split:%d" % c,
                        stall_s=90))
    common.run_jobs(jobs)
    distinct = set()
    for j in jobs:
        if j.status != "ok":
            rep.job_problem(j)
            if not j.result:
                continue
        r = j.result
        rep.evaluations += r["evals"]
        distinct.update(r["nontrivial"])
        rep.count("exhaustive_interval_cases", r["exhaustive_interval_cases"])
        for k, v in r["counters"].items():
            rep.count(k, v)
        for s in r["samples"][:1]:
            rep.sample(s)
        for f in r["fails"]:
            rep.violation(f)
        for k, v in r["fail_counts"].items():
            rep.count("failures." + k, v)
        rep.add_class("mode:" + r["mode"], r["evals"])
    rep.distinct = distinct
    rep.extra["exhaustive_scope"] = "interval arithmetic: a in [-4,4] x size 1..9 x k 1..size+3 x {own, alias} complete"
    rep.need("exhaustive_interval_cases", 1000, "exhaustive interval scope")
    rep.need("sampled.parts_enumerated", 500, "per-part enumerations")
    rep.need("sampled.k_gt_size", 50, "k larger than the domain")
    rep.need("sampled.alias_variable", 50, "alias variables")
    rep.need("sampled.history_solved_once", 30, "split after the problem was solved")
    rep.need("sampled.history_nested", 30, "nested splits")
    rep.assumptions = ["a split into fewer than k parts is accepted when k exceeds the domain size (the statement asks "
                       "for a partition into solvable sub-problems, not for exactly k of them)"]
    return rep.finish()


def replay(rep_json):
    from framework.props import _modelprop

    return _modelprop.replay_job("C12", rep_json, "framework.props.splitcheck", "replay_split")

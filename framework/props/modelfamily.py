"""Driver for the model-level checks (C01, C02, C03, C04 ...): clean and targeted streams, both modes."""
from framework import common, findings
from framework.common import Job


def open_mechanisms():
    return set(e["mechanism"] for e in findings.entries() if e.get("status") == "open")


def clean_gen(extra=None):
    """Generator options of the clean stream: avoids every mechanism listed as an open known finding."""
    o = {"repeat": True, "gcc_zero_cap": False, "affine_all_zero": True, "circuit": 0.15, "big": True}
    om = open_mechanisms()
    if "repeated_shared_domain_in_constraint" in om:
        o["repeat"] = False
    if extra:
        o.update(extra)
    return o


def build_jobs(prop, tier, seed, do, monitors, streams=None, want=None, monitor_opts=None, per_job=None,
               njobs=None, jit_share=0.3, orders=0, configs="random", configs_per_model=3, cost_share=0.2,
               objectives_per_model=2, task_extra=None, pairs_jobs=None):
    q = tier == "quick"
    want = want or [prop]
    njobs = njobs or (14 if q else 16)
    per_job = per_job or (70 if q else 1200)
    jobs = []
    n_jit = max(1, int(njobs * jit_share))
    for j in range(njobs):
        mode = "jit" if j < n_jit else "interp"
        cost = (j % int(1 / cost_share)) == 1 if cost_share > 0 else False
        g = clean_gen({"nonneg": True} if cost else None)
        if j % 4 == 2:
            g["max_doms"], g["max_props"], g["max_alias"] = 5, 5, 4
        task = {
            "props": want, "seed": seed * 7919 + j * 104729 + 13, "count": per_job * (3 if mode == "jit" else 1),
            "gen": g, "configs": configs, "configs_per_model": configs_per_model, "cost": cost,
            "monitors": monitors, "monitor_opts": monitor_opts or {}, "do": do, "orders": orders,
            "objectives_per_model": objectives_per_model,
            "max_points": 6000 if q else 20000, "deadline_s": 60 if q else 1000, "stream": "clean",
        }
        if task_extra:
            task.update(task_extra)
        jobs.append(Job("framework.props.models", "run_models", task, mode=mode,
                        timeout=300 if q else 1800, tag="clean:%s:%d" % (mode, j), stall_s=60 if q else 120))
    # focus stream: three-way value splits (mid value / min cost) on wide domains under one-directional constraints -
    # the part of the search machinery that two-valued and alldifferent-only models never reach
    for j in range(3 if q else 6):
        cost = j % 3 == 1
        task = {
            "props": want, "seed": seed * 389 + j * 11 + 1, "count": per_job * 2,
            "gen": clean_gen({"types": ["affine_leq", "affine_geq", "max_leq", "min_geq", "affine_leq", "affine_geq",
                                        "alldifferent", "element_iv", "relation", "lexicographic_leq", "count_eq"],
                              "widths": [2, 3, 3, 4, 4, 5], "max_doms": 4, "max_props": 3, "circuit": 0.0,
                              "nonneg": cost, "big": False}),
            "configs": "random", "configs_per_model": configs_per_model, "cost": cost, "monitors": monitors,
            "monitor_opts": monitor_opts or {}, "do": do, "orders": orders, "objectives_per_model": 1,
            "force_cfg": ({"dh": ["min_cost"]} if cost else ({"dh": ["mid"]} if j % 3 == 0 else
                                                              {"dh": ["max", "max", "min", "split_low"],
                                                               "calg": ["bc"]})),
            "max_points": 6000, "deadline_s": 60 if q else 900, "stream": "focus_three_way_split",
        }
        if task_extra:
            task.update(task_extra)
        jobs.append(Job("framework.props.models", "run_models", task, mode="jit" if (jit_share > 0 and j >= 3) else
                        "interp", timeout=300 if q else 1800, tag="focus3:%d" % j, stall_s=60 if q else 120))
    # focus stream: one shared domain seen through several views (x, x + c, ...) inside the same constraint - the write-back
    # intersects what the constraint computed per view, so the constraint may not have seen the final domain
    if clean_gen().get("repeat", True):
        for j in range(2 if q else 4):
            task = {
                "props": want, "seed": seed * 401 + j * 7 + 3, "count": per_job * 3,
                "gen": clean_gen({"types": ["affine_eq", "affine_eq", "affine_eq", "affine_leq", "affine_geq", "max_eq",
                                            "min_eq", "element_liv", "element_lic", "count_eq", "exactly_eq",
                                            "lexicographic_leq", "alldifferent", "relation", "max_leq", "min_geq"],
                                  "widths": [2, 3, 4, 5, 6], "max_doms": 2, "min_alias": 2, "max_alias": 4,
                                  "max_props": 1 if j % 2 == 0 else 2, "circuit": 0.0, "big": False, "repeat_p": 1.0,
                                  "plant": 0.5}),
                "configs": "random", "configs_per_model": configs_per_model, "cost": False, "monitors": monitors,
                "monitor_opts": monitor_opts or {}, "do": do, "orders": orders, "objectives_per_model": 1,
                "max_points": 6000, "deadline_s": 50 if q else 900, "stream": "focus_views_of_one_domain",
            }
            if task_extra:
                task.update(task_extra)
            jobs.append(Job("framework.props.models", "run_models", task,
                            mode="jit" if (jit_share > 0 and j % 2 == 1) else "interp",
                            timeout=300 if q else 1800, tag="views:%d" % j, stall_s=60 if q else 120))
    # large constraints, small search: planted models of 8-40 variables / arity <= 14 with all but 2-5 domains fixed - every
    # brute-force oracle and every plane-A monitor of the check applies to them unchanged
    for j in range(2 if q else 4):
        task = {
            "props": want, "seed": seed * 409 + j * 3 + 4, "count": per_job,
            "gen": {"source": "large_constraints_small_search", "max_vars": 14 if j % 2 == 0 else 24},
            "configs": "random", "configs_per_model": 2, "cost": False, "monitors": monitors,
            "monitor_opts": monitor_opts or {}, "do": do, "orders": 0, "objectives_per_model": 1,
            "max_points": 3000, "deadline_s": 50 if q else 900, "stream": "large_constraints_small_search",
        }
        if task_extra:
            task.update(task_extra)
        jobs.append(Job("framework.props.models", "run_models", task,
                        mode="jit" if (jit_share > 0 and j % 2 == 1) else "interp",
                        timeout=300 if q else 1800, tag="largesmall:%d" % j, stall_s=90 if q else 180))
    # focus stream: models on which shaving actually shaves (probes refuted where bound consistency alone is stuck:
    # parity of linear equalities, pigeonholes) surrounded by one-directional constraints
    if "fixpoint" in monitors or "shaving" in monitors:
        for j in range(2 if q else 4):
            task = {
                "props": want, "seed": seed * 397 + j * 5 + 2, "count": per_job * 2,
                "gen": clean_gen({"types": ["affine_eq", "affine_eq", "affine_leq", "affine_geq", "alldifferent",
                                            "max_leq", "min_geq", "affine_leq", "affine_geq", "exactly_true", "and"],
                                  "widths": [1, 1, 1, 2, 3] if j % 2 == 0 else [1, 2, 3, 3, 4], "max_doms": 5,
                                  "max_props": 5, "max_alias": 1, "circuit": 0.0, "big": False, "plant": 0.6,
                                  "coef": 2}),
                "configs": "random", "configs_per_model": configs_per_model, "cost": False, "monitors": monitors,
                "monitor_opts": monitor_opts or {}, "do": do, "orders": 0, "objectives_per_model": 1,
                "force_cfg": {"calg": ["shaving"]},
                "max_points": 6000, "deadline_s": 60 if q else 900, "stream": "focus_shaving_succeeds",
            }
            if task_extra:
                task.update(task_extra)
            jobs.append(Job("framework.props.models", "run_models", task, mode="interp", timeout=300 if q else 1800,
                            tag="focus-shaving:%d" % j, stall_s=60 if q else 120))
    # interaction stream: every ordered pair of constraint types forced to share a variable (mover x watcher)
    if pairs_jobs is None:
        pairs_jobs = 2 if q else 6
    for j in range(pairs_jobs):
        task = {
            "props": want, "seed": seed * 211 + j * 7 + 3, "count": 324, "pairs": j * 131,
            "configs": "random", "configs_per_model": 2, "cost": False, "monitors": monitors,
            "monitor_opts": monitor_opts or {}, "do": do, "objectives_per_model": 1,
            "max_points": 6000, "deadline_s": 60 if q else 900, "stream": "type_pairs",
        }
        if task_extra:
            task.update(task_extra)
        mode = "jit" if (jit_share > 0 and j % 3 == 2) else "interp"
        jobs.append(Job("framework.props.models", "run_models", task, mode=mode, timeout=300 if q else 1800,
                        tag="pairs:%s:%d" % (mode, j), stall_s=60 if q else 120))
    # targeted streams: one per open mechanism that a model can exercise (interpreted: hangs are cut by the budget)
    om = open_mechanisms()
    if "gcc_zero_capacity" in om:
        task = {
            "props": want, "seed": seed * 31 + 5, "count": 40 if q else 400,
            "gen": clean_gen({"types": ["gcc", "gcc", "alldifferent", "affine_leq"], "gcc_zero_cap": True,
                              "max_props": 2, "circuit": 0.0}),
            "configs": "random", "configs_per_model": 2, "monitors": monitors, "monitor_opts": monitor_opts or {},
            "do": do, "max_points": 3000, "deadline_s": 100 if q else 600, "stream": "targeted:gcc_zero_capacity",
            "objectives_per_model": 1,
        }
        if task_extra:
            task.update({k: v for k, v in task_extra.items() if k in ("nontrivial",)})
        jobs.append(Job("framework.props.models", "run_models", task, mode="interp", timeout=300 if q else 1200,
                        tag="targeted:gcc_zero_capacity"))
    if "affine_eq_single_round_skip_self" in om and "fixpoint" in monitors:
        task = {
            "props": want, "seed": seed * 37 + 11, "count": 60 if q else 600,
            "gen": clean_gen({"types": ["affine_eq", "affine_eq", "affine_leq", "alldifferent"], "max_props": 2,
                              "circuit": 0.0, "repeat": False, "widths": [1, 2, 3, 4]}),
            "configs": "random", "configs_per_model": 2, "monitors": monitors, "monitor_opts": monitor_opts or {},
            "do": ["enum"], "max_points": 3000, "deadline_s": 100 if q else 600,
            "stream": "targeted:affine_eq_single_round_skip_self",
            "fixed_models": [{"doms": [[3, 4], [3, 4], [2, 4]], "idx": [0, 1, 2], "off": [0, 0, 0],
                              "props": [[[0, 1, 2], "affine_eq", [-3, 1, 2, -3]]]},
                             {"doms": [[1, 2], [-1, 3], [2, 6], [-3, -1]], "idx": [0, 1, 2, 3, 3],
                              "off": [0, 0, 0, 0, -2],
                              "props": [[[4, 2, 3, 0], "affine_eq", [2, 1, -2, -3, -7]],
                                        [[3, 2], "affine_leq", [-3, 0, 3]], [[4], "alldifferent", []]]}],
        }
        if task_extra:
            task.update(task_extra)
        jobs.append(Job("framework.props.models", "run_models", task, mode="interp", timeout=300 if q else 1200,
                        tag="targeted:affine_eq"))
    if streams:
        jobs.extend(streams)
    return jobs


def aggregate(rep, jobs):
    hashes = set()
    nontrivial = set()
    for j in jobs:
        if j.status != "ok":
            if j.status == "timeout" and j.stalled_case is not None:
                resolve_stall(rep, j)
            else:
                rep.job_problem(j)
            if not j.result:
                continue
        r = j.result
        rep.evaluations += r["evals"]
        hashes.update(r["hashes"])
        nontrivial.update(r["nontrivial"])
        rep.count("models_generated", r["models"])
        rep.count("runs_" + r["mode"], r["evals"])
        rep.count("solutions_checked_against_O-sem", r["solutions_checked"])
        rep.count("models_skipped_too_large_for_O-brute", r["skipped_too_large"])
        if r.get("truncated"):
            rep.count("jobs_truncated_by_deadline")
        for k, v in r["classes"].items():
            rep.add_class(k, v)
        rep.add_class("stream:" + r["task"].get("stream", "?"), r["evals"])
        for k, v in r["counters"].items():
            if "max_" in k or k.endswith("limit"):
                rep.maxc(k, v)
            else:
                rep.count(k, v)
        for s in r["samples"]:
            rep.sample(s)
        for f in r["fails"]:
            rep.violation(f)
        for k, v in r["fail_counts"].items():
            rep.count("failures." + k, v)
    rep.distinct = nontrivial
    rep.counters["distinct_runs"] = len(hashes)


def resolve_stall(rep, j):
    """Watchdog protocol (DESIGN section 2, plane C): a child that stopped making progress is not a verdict.
    The case it was executing is replayed on plane A under the step budget; only a logical budget violation there,
    or a second stall of the same case run alone with 10x the patience, is reported."""
    case = j.stalled_case
    rep.count("stalled_jobs")
    rj = Job("framework.props.models", "replay_case", {"case": case}, mode="interp", timeout=600)
    common.run_jobs([rj])
    if rj.status == "ok":
        bad = [f for f in rj.result["fails"] if f["prop"] == rep.prop or f["kind"] in ("step_budget",)]
        if bad:
            for f in rj.result["fails"]:
                if f["prop"] == rep.prop:
                    w = dict(f, model=case["model"], cfg=case["cfg"], what=case.get("what"), mode="interp",
                             where="replay of the case a %s child stalled on" % j.mode)
                    rep.violation(w)
            if not any(f["prop"] == rep.prop for f in rj.result["fails"]):
                rep.inconclusive.append("child stalled on a case that exceeds the step budget under interpretation "
                                        "(a C04 matter): %r" % (case,))
            return
        # terminates under interpretation: run the case alone in the original mode with 10x the patience
        patience = 10 * (j.stall_s or 60)
        sj = Job("framework.props.models", "replay_case", {"case": case}, mode=j.mode, timeout=patience)
        common.run_jobs([sj])
        if sj.status == "ok":
            rep.count("stalls_resolved_as_slow")
            for f in sj.result["fails"]:
                if f["prop"] == rep.prop:
                    rep.violation(dict(f, model=case["model"], cfg=case["cfg"], what=case.get("what"), mode=j.mode))
            return
        if sj.status == "timeout":
            w = {"prop": rep.prop, "kind": "compiled_mode_hang", "model": case["model"], "cfg": case["cfg"],
                 "what": case.get("what"), "mode": j.mode,
                 "detail": "the case terminates under interpretation within the step budget but the %s run did not "
                           "return within %ds twice" % (j.mode, patience)}
            if rep.prop in ("C04", "C15", "C02", "C03"):
                rep.violation(w)
            else:
                rep.inconclusive.append("compiled-mode hang on %r" % (case,))
            return
    rep.job_problem(j)


def replay_generic(prop, rep_json, monitors=("budget",)):
    w = rep_json["witness"]
    if "call" in w and "model" not in w:
        from framework.props import callfamily

        return callfamily.replay_generic(prop, rep_json)
    mode = w.get("mode", "interp")
    j = Job("framework.props.models", "replay_model", {"prop": prop, "witness": w, "monitors": list(monitors)},
            mode=mode, timeout=600)
    if w.get("stream") == "big":
        j = Job("framework.props.bigrun", "replay_big", {"prop": prop, "witness": w}, mode="jit", timeout=600)
    if w.get("stream") == "big_interp":
        j = Job("framework.props.bigrun", "replay_big_interp", {"prop": prop, "witness": w}, mode="interp", timeout=900)
    common.run_jobs([j])
    if j.status != "ok":
        print("replay could not run: %s\n%s" % (j.status, j.stderr[-2000:]))
        return 2
    fails = j.result["fails"]
    if fails:
        for f in fails:
            print("VIOLATION property=%s replay=%s" % (prop, "<replayed>"))
            print("  %s: %s" % (f["kind"], f["detail"]))
        return 1
    print("replay: property %s holds on the recorded case" % prop)
    return 0

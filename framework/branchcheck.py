"""Postcondition of one branching decision (C09), shared by the in-search monitor and the unit harness."""
import numpy as np

MIN, MAX = 0, 1
EV_MIN, EV_MAX, EV_GROUND = 1, 2, 4


def need_events(lo, hi, a, b):
    return (EV_MIN if lo != a else 0) | (EV_MAX if hi != b else 0) | (EV_GROUND if lo == hi else 0)


def check_decision(pre_doms, pre_flags, t0, stack, flags, upd, t1, d, events, ground_by_caller=False):
    """Returns (failures [(kind, detail)], alternatives {level: (doms row, flags row, (d, need))}, need of branch)."""
    fails = []
    a, b = int(pre_doms[d, MIN]), int(pre_doms[d, MAX])
    if t1 <= t0 or t1 - t0 > 2:
        return [("unexpected_push_count", "top %d -> %d" % (t0, t1))], {}, 0
    parts = []
    for L in range(t0, t1 + 1):
        lo, hi = int(stack[L, d, MIN]), int(stack[L, d, MAX])
        parts.append((lo, hi, L))
        for k in range(stack.shape[1]):
            if k != d and (stack[L, k, MIN] != pre_doms[k, MIN] or stack[L, k, MAX] != pre_doms[k, MAX]):
                fails.append(("other_domain_touched", "level %d: domains %r vs entry %r (branching on %d)" % (
                    L, stack[L].tolist(), pre_doms.tolist(), d)))
                break
        if not np.array_equal(flags[L], pre_flags):
            fails.append(("flags_touched_by_branching", "level %d flags differ from the entry row" % L))
    srt = sorted(parts)
    ok = all(lo <= hi for lo, hi, _ in srt) and srt[0][0] == a and srt[-1][1] == b and all(
        srt[i][1] + 1 == srt[i + 1][0] for i in range(len(srt) - 1))
    if not ok:
        fails.append(("not_a_partition", "domain [%d,%d] split into %r (by level: %r)" % (
            a, b, [(l, h) for l, h, _ in srt], [(l, h) for l, h, _ in parts])))
    lo, hi = int(stack[t1, d, MIN]), int(stack[t1, d, MAX])
    need = need_events(lo, hi, a, b)
    chk = need & ~EV_GROUND if ground_by_caller else need
    if chk & ~int(events):
        fails.append(("branch_event_not_announced", "branch [%d,%d] of [%d,%d]: returned mask %d lacks %d" % (
            lo, hi, a, b, int(events), chk & ~int(events))))
    alts = {}
    for L in range(t0, t1):
        lo, hi = int(stack[L, d, MIN]), int(stack[L, d, MAX])
        n2 = need_events(lo, hi, a, b)
        ridx, rev = int(upd[L, 0]), int(upd[L, 1])
        if ridx != d:
            fails.append(("alternative_records_wrong_domain", "level %d records domain %d, branched on %d" % (
                L, ridx, d)))
        if n2 & ~rev:
            fails.append(("alternative_event_not_recorded",
                          "alternative [%d,%d] of [%d,%d] at level %d records mask %d, lacks %d" % (
                              lo, hi, a, b, L, rev, n2 & ~rev)))
        alts[L] = (stack[L].copy(), flags[L].copy(), (d, n2))
    return fails, alts, need


def check_queue(queue, flags_row, trig, d, need):
    for p in range(len(queue)):
        if flags_row[p] and (int(trig[d, p]) & need) and not queue[p]:
            return "constraint #%d watches mask %d of domain %d, events %d happened, but it is not queued" % (
                p, int(trig[d, p]), d, need)
    return None

"""Independent oracles (DESIGN.md section 3). Imports nothing from nucs.

Constraint types are named by strings; framework/nucsmap.py maps them to the registry indices of the tree under test.
A *model* is a JSON-serialisable dict:
  {"doms": [[lo,hi],...],            shared domains
   "idx":  [d,...], "off": [o,...],  one entry per variable: shared-domain index and offset
   "props": [[ [v,...], "name", [p,...] ], ...]}
"""
import itertools
from fractions import Fraction

TYPES = [
    "and", "affine_eq", "affine_geq", "affine_leq", "alldifferent", "count_eq", "dummy", "element_iv",
    "element_liv", "element_lic", "exactly_eq", "exactly_true", "gcc", "lexicographic_leq", "max_eq", "max_leq",
    "min_eq", "min_geq", "no_sub_cycle", "relation", "scc",
]
# documented as implementing bound consistency (property C14)
BC_TYPES = [
    "and", "affine_geq", "affine_leq", "alldifferent", "count_eq", "element_iv", "element_liv", "element_lic",
    "exactly_eq", "exactly_true", "gcc", "lexicographic_leq", "max_eq", "max_leq", "min_eq", "min_geq", "relation",
]
# types that can answer "entailed" (property C07)
ENTAIL_TYPES = [
    "affine_geq", "affine_leq", "count_eq", "element_iv", "element_lic", "element_liv", "exactly_eq", "exactly_true",
    "lexicographic_leq", "max_leq", "min_geq", "relation",
]
MIN_ARITY = {
    "and": 2, "count_eq": 2, "element_iv": 2, "element_liv": 3, "element_lic": 2, "max_eq": 2, "max_leq": 2,
    "min_eq": 2, "min_geq": 2, "lexicographic_leq": 2, "no_sub_cycle": 2, "scc": 2,
}


# ------------------------------------------------------------------ O-sem
def _lin(t, p):
    return sum(a * x for a, x in zip(p[:-1], t))


def sem_and(t, p):
    return int(all(v == 1 for v in t[:-1])) == t[-1]


def sem_affine_eq(t, p):
    return _lin(t, p) == p[-1]


def sem_affine_geq(t, p):
    return _lin(t, p) >= p[-1]


def sem_affine_leq(t, p):
    return _lin(t, p) <= p[-1]


def sem_alldifferent(t, p):
    return len(set(t)) == len(t)


def sem_count_eq(t, p):
    return sum(1 for x in t[:-1] if x == p[0]) == t[-1]


def sem_dummy(t, p):
    return True


def sem_element_iv(t, p):
    return 0 <= t[0] < len(p) and p[t[0]] == t[1]


def sem_element_liv(t, p):
    l, i, v = t[:-2], t[-2], t[-1]
    return 0 <= i < len(l) and l[i] == v


def sem_element_lic(t, p):
    l, i = t[:-1], t[-1]
    return 0 <= i < len(l) and l[i] == p[0]


def sem_exactly_eq(t, p):
    return sum(1 for x in t if x == p[0]) == p[1]


def sem_exactly_true(t, p):
    return sum(1 for x in t if x == 1) == p[0]


def sem_gcc(t, p):
    m = (len(p) - 1) // 2
    v0 = p[0]
    for j in range(m):
        c = sum(1 for x in t if x == v0 + j)
        if not (p[1 + j] <= c <= p[1 + m + j]):
            return False
    return all(v0 <= x < v0 + m for x in t)


def sem_lexicographic_leq(t, p):
    n = len(t) // 2
    return tuple(t[:n]) <= tuple(t[n:])


def sem_max_eq(t, p):
    return max(t[:-1]) == t[-1]


def sem_max_leq(t, p):
    return max(t[:-1]) <= t[-1]


def sem_min_eq(t, p):
    return min(t[:-1]) == t[-1]


def sem_min_geq(t, p):
    return min(t[:-1]) >= t[-1]


def sem_relation(t, p):
    n = len(t)
    tt = tuple(t)
    return any(tuple(p[k:k + n]) == tt for k in range(0, len(p) - n + 1, n))


def _has_subcycle(t):
    n = len(t)
    for s in range(n):
        seen = set()
        c = s
        steps = 0
        while c not in seen and 0 <= c < n:
            seen.add(c)
            c = t[c]
            steps += 1
        if c == s and steps < n:
            return True
    return False


def sem_no_sub_cycle(t, p):
    return not _has_subcycle(t)


def sem_scc(t, p):
    n = len(t)
    c = 0
    seen = set()
    for _ in range(n):
        seen.add(c)
        c = t[c]
        if not (0 <= c < n):
            return False
    return len(seen) == n and c == 0


SEM = {
    "and": sem_and, "affine_eq": sem_affine_eq, "affine_geq": sem_affine_geq, "affine_leq": sem_affine_leq,
    "alldifferent": sem_alldifferent, "count_eq": sem_count_eq, "dummy": sem_dummy, "element_iv": sem_element_iv,
    "element_liv": sem_element_liv, "element_lic": sem_element_lic, "exactly_eq": sem_exactly_eq,
    "exactly_true": sem_exactly_true, "gcc": sem_gcc, "lexicographic_leq": sem_lexicographic_leq,
    "max_eq": sem_max_eq, "max_leq": sem_max_leq, "min_eq": sem_min_eq, "min_geq": sem_min_geq,
    "no_sub_cycle": sem_no_sub_cycle, "relation": sem_relation, "scc": sem_scc,
}


def is_permutation(t):
    return sorted(t) == list(range(len(t)))


# ------------------------------------------------------------------ O-hull
def box_points(box):
    n = 1
    for a, b in box:
        n *= max(0, b - a + 1)
    return n


def tuples(box):
    return itertools.product(*[range(a, b + 1) for a, b in box])


def hull(name, box, p):
    """(hull or None, number of satisfying tuples). Exhaustive."""
    sem = SEM[name]
    lo = hi = None
    cnt = 0
    for t in tuples(box):
        if sem(t, p):
            cnt += 1
            if lo is None:
                lo = list(t)
                hi = list(t)
            else:
                for i, v in enumerate(t):
                    if v < lo[i]:
                        lo[i] = v
                    elif v > hi[i]:
                        hi[i] = v
    if lo is None:
        return None, 0
    return [[lo[i], hi[i]] for i in range(len(box))], cnt


def all_satisfy(name, box, p):
    sem = SEM[name]
    for t in tuples(box):
        if not sem(t, p):
            return False, list(t)
    return True, None


# ------------------------------------------------------------------ O-interval (one round of interval reasoning)
def _ceil_div(a, b):
    return -((-a) // b)


def interval_round_affine_eq(box, p):
    """One round of interval reasoning for sum a_i x_i = c, every variable from the *input* bounds.
    Returns the new box, or None when some interval becomes empty."""
    c = p[-1]
    a = p[:-1]
    lo_terms = [min(ai * l, ai * h) for ai, (l, h) in zip(a, box)]
    hi_terms = [max(ai * l, ai * h) for ai, (l, h) in zip(a, box)]
    slo, shi = sum(lo_terms), sum(hi_terms)
    out = []
    for i, (ai, (l, h)) in enumerate(zip(a, box)):
        if ai == 0:
            out.append([l, h])
            continue
        rest_lo = slo - lo_terms[i]
        rest_hi = shi - hi_terms[i]
        # ai * x in [c - rest_hi, c - rest_lo]
        tl, th = c - rest_hi, c - rest_lo
        if ai > 0:
            nl, nh = _ceil_div(tl, ai), th // ai
        else:
            nl, nh = _ceil_div(th, ai), tl // ai
        nl, nh = max(l, nl), min(h, nh)
        out.append([nl, nh])
    if any(l > h for l, h in out):
        return None
    return out


# ------------------------------------------------------------------ models: views, brute force
def var_domains(model):
    return [
        [model["doms"][d][0] + o, model["doms"][d][1] + o] for d, o in zip(model["idx"], model["off"])
    ]


def model_points(model):
    return box_points(model["doms"])


def check_solution(model, vals):
    """Returns None if vals is a solution of the model, else a string naming the first failing clause of C01."""
    idx, off, doms = model["idx"], model["off"], model["doms"]
    if len(vals) != len(idx):
        return "length %d != %d variables" % (len(vals), len(idx))
    shared = {}
    for v, (d, o) in enumerate(zip(idx, off)):
        lo, hi = doms[d][0] + o, doms[d][1] + o
        if not (lo <= vals[v] <= hi):
            return "variable %d = %d outside declared domain [%d,%d]" % (v, vals[v], lo, hi)
        s = vals[v] - o
        if d in shared and shared[d] != s:
            return "variables sharing domain %d disagree: %d vs %d after removing offsets" % (d, shared[d], s)
        shared[d] = s
    for k, (vs, name, p) in enumerate(model["props"]):
        if not SEM[name](tuple(vals[v] for v in vs), p):
            return "constraint #%d %s%r on variables %r violated by %r" % (
                k, name, list(p), list(vs), [vals[v] for v in vs])
    return None


def brute(model, limit=None):
    """All solutions (tuples over variables) by enumeration of the product of the shared domains."""
    idx, off = model["idx"], model["off"]
    props = [(vs, SEM[name], p) for vs, name, p in model["props"]]
    sols = []
    for t in itertools.product(*[range(a, b + 1) for a, b in model["doms"]]):
        vals = [t[d] + o for d, o in zip(idx, off)]
        ok = True
        for vs, sem, p in props:
            if not sem(tuple(vals[v] for v in vs), p):
                ok = False
                break
        if ok:
            sols.append(tuple(vals))
            if limit is not None and len(sols) > limit:
                break
    return sols


# ------------------------------------------------------------------ O-fix: reference propagation by chaotic iteration of O-hull
def ref_fixpoint(model, doms=None, enabled=None, max_points=20000):
    """Greatest common fixpoint of the per-constraint hull operators on the shared domains.
    Returns (doms or None if inconsistent, decided) - decided False if some box was too large for O-hull."""
    doms = [list(d) for d in (doms if doms is not None else model["doms"])]
    idx, off = model["idx"], model["off"]
    props = model["props"]
    changed = True
    while changed:
        changed = False
        for k, (vs, name, p) in enumerate(props):
            if enabled is not None and not enabled[k]:
                continue
            box = [[doms[idx[v]][0] + off[v], doms[idx[v]][1] + off[v]] for v in vs]
            if box_points(box) > max_points:
                return doms, False
            # a shared domain may occur several times: enumerate over the distinct shared domains
            ds = []
            for v in vs:
                if idx[v] not in ds:
                    ds.append(idx[v])
            sem = SEM[name]
            lo = {}
            hi = {}
            for t in itertools.product(*[range(doms[d][0], doms[d][1] + 1) for d in ds]):
                val = dict(zip(ds, t))
                tup = tuple(val[idx[v]] + off[v] for v in vs)
                if sem(tup, p):
                    for d, x in val.items():
                        if d not in lo:
                            lo[d] = hi[d] = x
                        else:
                            if x < lo[d]:
                                lo[d] = x
                            if x > hi[d]:
                                hi[d] = x
            if not lo and ds:
                return None, True
            for d in ds:
                if lo[d] != doms[d][0] or hi[d] != doms[d][1]:
                    doms[d] = [lo[d], hi[d]]
                    changed = True
    return doms, True

"""Child-process entry: python -m framework.worker <module> <function> <in.json> <out.json>."""
import importlib
import json
import os
import sys
import warnings


def main():
    module, func, in_path, out_path = sys.argv[1:5]
    os.environ["NUCS_VERIF_OUT"] = out_path
    warnings.filterwarnings("ignore")
    with open(in_path) as f:
        task = json.load(f)
    tree = os.environ.get("NUCS_VERIF_TREE", "/repo")
    if os.environ.get("NUCS_VERIF_SANITIZER"):
        from framework.planes import sanitizer

        sanitizer.install()
    import nucs

    real = os.path.realpath(os.path.dirname(os.path.dirname(nucs.__file__)))
    if real != os.path.realpath(tree):
        sys.stderr.write("nucs imported from %s, expected %s\n" % (real, tree))
        sys.exit(3)
    import logging

    logging.disable(logging.CRITICAL)
    mod = importlib.import_module(module)
    result = getattr(mod, func)(task)
    tmp = out_path + ".tmp"
    with open(tmp, "w") as f:
        json.dump(result, f)
    os.replace(tmp, out_path)


if __name__ == "__main__":
    main()

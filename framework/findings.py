"""Known findings: committed list (known_findings.json, never written at run time) + predicates keyed by mechanism.

A witness is classified as a known finding only if an entry with status "open" names a mechanism whose predicate
(code below, written in terms of the minimal witness's structure and failure kind - never a hash or a random value)
accepts it for the property being checked. "fixed" entries suppress nothing.
"""
import json
import os

from framework.common import VERIF

_PATH = os.path.join(VERIF, "known_findings.json")
_CACHE = None


def entries():
    global _CACHE
    if _CACHE is None:
        try:
            with open(_PATH) as f:
                _CACHE = json.load(f)["findings"]
        except FileNotFoundError:
            _CACHE = []
    return _CACHE


def _call_of(w):
    return w.get("call") or {}


def _props_of(w):
    m = w.get("model") or {}
    return m.get("props") or []


def _gcc_zero_cap_params(p):
    m = (len(p) - 1) // 2
    return m > 0 and any(u == 0 for u in p[1 + m:1 + 2 * m])


# ---- predicates -----------------------------------------------------------------------------------------
def pred_gcc_zero_capacity(prop, w):
    """Minimal witness is a single gcc call (or a model whose constraints are all gcc) with some capacity u_j = 0."""
    c = _call_of(w)
    if c:
        return c.get("name") == "gcc" and _gcc_zero_cap_params(c.get("params", []))
    ps = _props_of(w)
    if ps and w.get("minimized"):
        return all(name == "gcc" for _, name, _ in ps) and any(_gcc_zero_cap_params(p) for _, _, p in ps)
    if ps and w.get("constraint") == "gcc":
        # a monitor names the constraint that misbehaved: it is a gcc and the model posts a zero-capacity gcc
        return any(name == "gcc" and _gcc_zero_cap_params(p) for _, name, p in ps)
    return False


def pred_affine_eq_skip_self(prop, w):
    """The constraint that still prunes after the pass is affine_eq, it was the last one executed in that pass and
    its bit is still set in the queue - the signature of pop_propagator's 'skip the previous propagator' rule."""
    if w.get("constraint") != "affine_eq":
        return False
    if bool(w.get("queued")) and bool(w.get("last")):
        return True
    # consequence of the same mechanism: the queue bit left by the skip was consumed below a choice point and the
    # re-run is still owed after backtracking to it (the queue is not saved with the choice point)
    if w.get("owed") and not w.get("queued"):
        return True
    # plane B (compiled probe) cannot tell 'owed' from 'never woken': it only names the constraint type; the
    # interpreted fixpoint monitor decides the same models with the full signature
    return w.get("plane") == "B" and w.get("kind") == "not_a_fixpoint" and bool(w.get("affine_eq_only"))


def pred_partial_message(prop, w):
    """The caller is blocked inside Connection._recv_bytes under Queue.get: it is reading a message whose writer was killed in
    the middle of it. Only possible for messages larger than PIPE_BUF (4096 bytes: smaller ones are written atomically)."""
    c = w.get("midwrite_case") or {}
    return (w.get("kind") == "caller_blocked_reading_a_partial_message" and c.get("message_bytes", 0) > 4096
            and any("recv_bytes" in x for x in (w.get("blocked_in") or [])))


PREDICATES = {
    "partial_message_of_a_killed_worker": pred_partial_message,
    "gcc_zero_capacity": pred_gcc_zero_capacity,
    "affine_eq_single_round_skip_self": pred_affine_eq_skip_self,
}


def classify(prop, w):
    for e in entries():
        if e.get("status") != "open":
            continue
        if prop not in e.get("properties", []):
            continue
        kinds = e.get("kinds")
        if kinds and w.get("kind") not in kinds and not any(w.get("kind", "").startswith(k) for k in kinds):
            continue
        pred = PREDICATES.get(e["mechanism"])
        if pred is not None and pred(prop, w):
            return e["mechanism"]
    return None


def group_key(w):
    c = _call_of(w)
    if c:
        return "%s|%s" % (w.get("kind"), c.get("name"))
    if w.get("mpcase"):
        return "%s|mp|%s" % (w.get("kind"), w.get("op"))
    if w.get("unit"):
        return "%s|unit|%s" % (w.get("kind"), (w.get("unit") or {}).get("heuristic"))
    ps = _props_of(w)
    names = ",".join(sorted(set(n for _, n, _ in ps)))
    return "%s|%s|%s|%s" % (w.get("kind"), names, w.get("where", ""), w.get("constraint", ""))


def short(w):
    c = _call_of(w)
    if c:
        return "%s %s(box=%s, params=%s) status=%s out=%s" % (
            w.get("kind"), c.get("name"), c.get("box"), c.get("params"), w.get("status"), w.get("out"))
    if w.get("mpcase"):
        c = w["mpcase"]
        return "%s op=%s objective=%s split(k=%s, var=%s) schedule=%s model=%s cfg=%s" % (
            w.get("kind"), w.get("op"), w.get("ovar"), c.get("k"), c.get("var"), w.get("schedule"), c.get("model"),
            c.get("cfg"))
    if w.get("model"):
        m = w["model"]
        return "%s model(doms=%s idx=%s off=%s props=%s) cfg=%s" % (
            w.get("kind"), m.get("doms"), m.get("idx"), m.get("off"), m.get("props"), w.get("cfg"))
    return "%s %s" % (w.get("kind"), json.dumps({k: v for k, v in w.items() if k not in ("detail",)})[:300])

#!/bin/bash
# usage: tools/verify_seed.sh <worktree> <id>  - confirms: tests pass with the change, demo fails with it and passes without
wt=$1; id=$2
cd $wt || exit 1
git diff -- nucs > /tmp/verify_$id.patch
[ -s /tmp/verify_$id.patch ] || { echo "no change in $wt"; exit 1; }
C=$(mktemp -d)
NUMBA_CACHE_DIR=$C PYTHONPATH=$wt /venv/bin/python -m pytest -q -p no:cacheprovider tests 2>&1 | grep -E "passed|failed" | tail -1
NUMBA_CACHE_DIR=$C PYTHONPATH=$wt timeout 900 /venv/bin/python demo_$id.py > /tmp/verify_${id}_with.txt 2>&1; echo "demo WITH change: rc=$?"
rm -rf $C; C=$(mktemp -d)
git apply -R /tmp/verify_$id.patch
NUMBA_CACHE_DIR=$C PYTHONPATH=$wt timeout 900 /venv/bin/python demo_$id.py > /tmp/verify_${id}_without.txt 2>&1; echo "demo WITHOUT change: rc=$?"
git apply /tmp/verify_$id.patch
rm -rf $C
git diff --stat -- nucs | tail -1

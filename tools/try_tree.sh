#!/bin/bash
# usage: tools/try_tree.sh <tree> <tier> <ids...>  - runs checks against another nucs tree (a mutant worktree);
# evidence, replays and caches go to a scratch directory that is removed afterwards, /verif/evidence is untouched.
cd "$(dirname "$0")/.." || exit 1
tree=$1; tier=$2; shift 2
scratch=/var/tmp/nucs-verif-mutant-$$
mkdir -p $scratch
export NUCS_VERIF_TREE=$tree NUCS_VERIF_WORK=$scratch/work NUCS_VERIF_EVIDENCE=$scratch/evidence NUCS_VERIF_REPLAYS=$scratch/replays
for id in "$@"; do
  out=$(./check $id --tier $tier 2>&1); rc=$?
  echo "== $id rc=$rc $(echo "$out" | grep -E "^C[0-9]+ " | tail -1)"
  echo "$out" | grep -E "^VIOLATION|^  witness|^INCONCLUSIVE" | cut -c1-420 | head -${LINES_MAX:-6}
done
rm -rf $scratch

#!/bin/bash
# Development gate: applies each /verif/mutants/*.patch (first line "# expect: <check ids>") to a scratch worktree and
# expects every listed check's quick tier to report a violation. usage: tools/mutants.sh [pattern]
cd "$(dirname "$0")/.." || exit 1
pat=${1:-*}
miss=0
for f in mutants/$pat.patch; do
  name=$(basename $f .patch)
  wt=/var/tmp/nucs-mutant-$$-$name
  git -C /repo worktree add -q --detach $wt HEAD || exit 2
  if ! tail -n +2 $f | git -C $wt apply; then echo "$name: patch does not apply"; git -C /repo worktree remove --force $wt; miss=1; continue; fi
  for id in $(head -1 $f | sed 's/# expect: //'); do
    out=$(tools/try_tree.sh $wt quick $id 2>&1 | head -1)
    if echo "$out" | grep -q "rc=1"; then echo "caught  $name by $id"; else echo "MISSED  $name by $id :: $out"; miss=1; fi
  done
  git -C /repo worktree remove --force $wt
done
git -C /repo worktree prune
exit $miss

#!/bin/bash
# usage: tools/seed_eval.sh <worktree> <ID> <check ids...> - confirm a seeded change (tests, demo with/without), then run the
# listed checks' quick tier against the worktree. Output: /var/tmp/seed-logs/<basename of worktree parent>-<ID>.log
cd "$(dirname "$0")/.." || exit 1
wt=$1; id=$2; shift 2
echo "=== verify $id"
tools/verify_seed.sh $wt $id
echo "=== checks"
LINES_MAX=4 tools/try_tree.sh $wt quick "$@"

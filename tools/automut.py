#!/venv/bin/python
"""Development gate (not a registered check): automatic mutation sweep.

Generates single-site mutants of the nucs sources (comparison flips, +-1 dropped, MIN<->MAX, and<->or, status constants),
keeps those that still pass the repository's own test suite, runs the quick tier of the checks mapped to the mutated file
against each survivor (through NUCS_VERIF_TREE, scratch evidence / caches) and reports caught / MISSED.
Scratch trees live under /var/tmp/automut-<pid>/ and are removed as soon as a mutant is done.

usage: tools/automut.py --files 'nucs/propagators/scc*.py' ... [--max N] [--jobs J] [--seed S] [--out results.jsonl]
"""
import argparse
import ast
import glob
import json
import os
import random
import shutil
import subprocess
import sys
import time
from concurrent.futures import ThreadPoolExecutor

VERIF = os.path.dirname(os.path.dirname(os.path.abspath(__file__)))
REPO = "/repo"
PY = "/venv/bin/python"

CMP = {ast.Lt: ("<", "<="), ast.LtE: ("<=", "<"), ast.Gt: (">", ">="), ast.GtE: (">=", ">"), ast.Eq: ("==", "!="),
       ast.NotEq: ("!=", "==")}


def checks_for(path, func):
    p = path
    if "/propagators/" in p and p.endswith("_propagator.py"):
        if func.startswith("get_triggers"):
            return ["C08", "C02"]
        if func.startswith("get_complexity"):
            return []
        return ["C05", "C14", "C06", "C07", "C01"]
    if p.endswith("propagators/propagators.py") or p.endswith("bound_consistency_algorithm.py"):
        return ["C08", "C02", "C17", "C01"]
    if "/heuristics/" in p:
        return ["C09", "C02", "C03"]
    if p.endswith("shaving_consistency_algorithm.py"):
        return ["C10", "C17", "C02"]
    if p.endswith("multiprocessing_solver.py"):
        return ["C11", "C18", "C17"]
    if p.endswith("backtrack_solver.py") or p.endswith("solver.py") or p.endswith("choice_points.py"):
        return ["C02", "C03", "C09", "C17", "C19", "C11"]
    if p.endswith("problems/problem.py"):
        return ["C12", "C13", "C02", "C19", "C15"]
    if "/examples/" in p or "/problems/" in p:
        return ["C20"]
    if p.endswith("numpy_helper.py") or p.endswith("numba_helper.py"):
        return ["C02", "C15", "C09"]
    return ["C01", "C02"]


def sites(path):
    src = open(path).read()
    lines = src.split("\n")
    tree = ast.parse(src)
    out = []

    def text(node):
        return ast.get_source_segment(src, node)

    for fn in ast.walk(tree):
        if not isinstance(fn, (ast.FunctionDef,)):
            continue
        if fn.name.startswith("get_complexity") or fn.name in ("__repr__", "__str__", "solution_as_printable", "main"):
            continue
        for node in ast.walk(fn):
            if isinstance(node, ast.Compare) and len(node.ops) == 1 and type(node.ops[0]) in CMP:
                l, r = node.left, node.comparators[0]
                if l.end_lineno != r.lineno:
                    continue
                seg = lines[l.end_lineno - 1][l.end_col_offset:r.col_offset]
                old, new = CMP[type(node.ops[0])]
                if seg.strip() != old:
                    continue
                k = l.end_col_offset + seg.index(old)
                out.append((fn.name, l.end_lineno, k, old, new, "cmp"))
            elif isinstance(node, ast.BinOp) and isinstance(node.op, (ast.Add, ast.Sub)) and isinstance(node.right, ast.Constant) \
                    and node.right.value == 1 and node.right.lineno == node.left.end_lineno:
                # "x + 1" -> "x + 0"
                out.append((fn.name, node.right.lineno, node.right.col_offset, "1", "0", "pm1"))
            elif isinstance(node, ast.Name) and node.id in ("MIN", "MAX"):
                out.append((fn.name, node.lineno, node.col_offset, node.id, "MAX" if node.id == "MIN" else "MIN", "minmax"))
            elif isinstance(node, ast.BoolOp) and len(node.values) == 2 and node.values[0].end_lineno == node.values[1].lineno:
                a, b = node.values
                seg = lines[a.end_lineno - 1][a.end_col_offset:b.col_offset]
                old = "and" if isinstance(node.op, ast.And) else "or"
                if seg.strip() != old:
                    continue
                k = a.end_col_offset + seg.index(old)
                out.append((fn.name, a.end_lineno, k, old, "or" if old == "and" else "and", "bool"))
            elif isinstance(node, ast.Return) and isinstance(node.value, ast.Name) and node.value.id == "PROP_CONSISTENCY":
                out.append((fn.name, node.value.lineno, node.value.col_offset, "PROP_CONSISTENCY", "PROP_ENTAILMENT", "status"))
            elif isinstance(node, ast.Return) and isinstance(node.value, ast.Name) and node.value.id == "PROP_INCONSISTENCY":
                out.append((fn.name, node.value.lineno, node.value.col_offset, "PROP_INCONSISTENCY", "PROP_CONSISTENCY", "status"))
            elif isinstance(node, ast.AugAssign) and isinstance(node.op, (ast.Add, ast.Sub)) and isinstance(node.value, ast.Constant) \
                    and node.value.value == 1:
                out.append((fn.name, node.value.lineno, node.value.col_offset, "1", "0", "aug"))
    return out


def run(cmd, env, cwd, timeout):
    try:
        p = subprocess.run(cmd, env=env, cwd=cwd, stdout=subprocess.PIPE, stderr=subprocess.STDOUT, timeout=timeout, text=True)
        return p.returncode, p.stdout
    except subprocess.TimeoutExpired as e:
        return 124, (e.stdout or b"").decode("utf8", "replace") if isinstance(e.stdout, bytes) else (e.stdout or "")


def do_mutant(idx, rel, site, root, skip_tests, only_checks):
    fn, line, col, old, new, kind = site
    tree = os.path.join(root, "m%04d" % idx)
    os.makedirs(tree)
    res = {"idx": idx, "file": rel, "func": fn, "line": line, "col": col, "old": old, "new": new, "kind": kind}
    try:
        for d in ("nucs", "tests"):
            shutil.copytree(os.path.join(REPO, d), os.path.join(tree, d), ignore=shutil.ignore_patterns("__pycache__"))
        for f in ("pyproject.toml", "pytest.ini", "setup.cfg", "tox.ini", "conftest.py"):
            if os.path.exists(os.path.join(REPO, f)):
                shutil.copy(os.path.join(REPO, f), tree)
        p = os.path.join(tree, rel)
        lines = open(p).read().split("\n")
        s = lines[line - 1]
        assert s[col:col + len(old)] == old, (s, col, old)
        res["src"] = s.strip()
        lines[line - 1] = s[:col] + new + s[col + len(old):]
        open(p, "w").write("\n".join(lines))
        try:
            compile("\n".join(lines), p, "exec")
        except SyntaxError:
            res["outcome"] = "syntax"
            return res
        env = dict(os.environ)
        env.update(NUMBA_CACHE_DIR=os.path.join(tree, ".nb"), PYTHONPATH=tree, PYTHONDONTWRITEBYTECODE="1")
        if not skip_tests:
            t0 = time.time()
            rc, out = run([PY, "-m", "pytest", "-q", "-x", "-p", "no:cacheprovider", "--timeout=600", "tests"], env, tree, 1500)
            res["tests_s"] = round(time.time() - t0, 1)
            if rc != 0:
                res["outcome"] = "killed_by_tests"
                res["tests_tail"] = out.strip().split("\n")[-1][:200]
                return res
        shutil.rmtree(os.path.join(tree, ".nb"), ignore_errors=True)
        ids = only_checks or checks_for(rel, fn)
        res["checks"] = {}
        caught = False
        env = dict(os.environ)
        scratch = os.path.join(tree, ".verif")
        env.update(NUCS_VERIF_TREE=tree, NUCS_VERIF_WORK=scratch + "/work", NUCS_VERIF_EVIDENCE=scratch + "/evidence",
                   NUCS_VERIF_REPLAYS=scratch + "/replays")
        for cid in ids:
            t0 = time.time()
            rc, out = run([os.path.join(VERIF, "check"), cid, "--tier", "quick"], env, VERIF, 3600)
            v = [l for l in out.split("\n") if l.startswith("VIOLATION") or l.startswith("  witness") or l.startswith("INCONCLUSIVE")]
            res["checks"][cid] = {"rc": rc, "s": round(time.time() - t0, 1), "lines": [x[:300] for x in v[:3]]}
            if rc == 1:
                caught = True
                break
        res["outcome"] = "caught" if caught else "MISSED"
        return res
    except Exception as e:  # harness trouble, not a verdict
        res["outcome"] = "error"
        res["error"] = repr(e)
        return res
    finally:
        shutil.rmtree(tree, ignore_errors=True)


def main():
    ap = argparse.ArgumentParser()
    ap.add_argument("--files", nargs="+", default=[])
    ap.add_argument("--max", type=int, default=40)
    ap.add_argument("--per-file", type=int, default=6)
    ap.add_argument("--jobs", type=int, default=4)
    ap.add_argument("--seed", type=int, default=0)
    ap.add_argument("--kinds", default="")
    ap.add_argument("--skip-tests", action="store_true")
    ap.add_argument("--checks", default="")
    ap.add_argument("--out", default="/var/tmp/automut-results.jsonl")
    ap.add_argument("--from-jsonl", default="", help="re-run the mutants listed in a result file of tools/automut_calls.py")
    ap.add_argument("--only-outcome", default="SURVIVED")
    ap.add_argument("--grep", default="")
    a = ap.parse_args()
    rnd = random.Random(a.seed)
    todo = []
    if a.from_jsonl:
        for l in open(a.from_jsonl):
            r = json.loads(l)
            if r["outcome"] != a.only_outcome or (a.grep and a.grep not in r["file"] + ":" + r["func"]):
                continue
            for s_ in sites(os.path.join(REPO, r["file"])):
                if s_[0] == r["func"] and s_[1] == r["line"] and s_[3] == r["old"] and s_[4] == r["new"]:
                    lines_ = open(os.path.join(REPO, r["file"])).read().split("\n")
                    if lines_[s_[1] - 1].strip() == r.get("src", lines_[s_[1] - 1].strip()):
                        todo.append((r["file"], s_))
        a.files = []
    for pat in a.files:
        for p in sorted(glob.glob(os.path.join(REPO, pat))):
            rel = os.path.relpath(p, REPO)
            ss = sites(p)
            if a.kinds:
                ss = [s for s in ss if s[5] in a.kinds.split(",")]
            rnd.shuffle(ss)
            todo += [(rel, s) for s in ss[:a.per_file]]
    if not a.from_jsonl:
        rnd.shuffle(todo)
    todo = todo[:a.max]
    root = "/var/tmp/automut-%d" % os.getpid()
    os.makedirs(root, exist_ok=True)
    print("mutants:", len(todo), flush=True)
    only = a.checks.split(",") if a.checks else None
    try:
        with ThreadPoolExecutor(a.jobs) as ex:
            futs = [ex.submit(do_mutant, i, rel, s, root, a.skip_tests, only) for i, (rel, s) in enumerate(todo)]
            for f in futs:
                r = f.result()
                with open(a.out, "a") as o:
                    o.write(json.dumps(r) + "\n")
                print(r["outcome"], r["file"], r["func"], r["line"], r["old"], "->", r["new"], "|", r.get("src", "")[:90],
                      {k: v["rc"] for k, v in r.get("checks", {}).items()}, flush=True)
    finally:
        shutil.rmtree(root, ignore_errors=True)


if __name__ == "__main__":
    main()

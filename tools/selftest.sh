#!/bin/bash
# Development gate (not a registered check): applies every seeded change to a scratch worktree of /repo (outside /repo and
# /verif), runs the checks that are expected to catch it, and reports caught / MISSED. Worktrees are removed afterwards.
# usage: tools/selftest.sh [tier] [seed-dir-pattern]
cd "$(dirname "$0")/.." || exit 1
tier=${1:-quick}; pat=${2:-*}
miss=0
for d in seeded/$pat/; do
  [ -f "$d/patch.diff" ] || continue
  name=$(basename $d)
  if grep -q '"neutralised_by"' $d/meta.json; then echo "skipped $name (neutralised by a later fix: commit, see meta.json)"; continue; fi
  wt=/var/tmp/nucs-selftest-$$-$name
  git -C /repo worktree add -q --detach $wt HEAD || { echo "worktree failed"; exit 2; }
  if ! git -C $wt apply "$PWD/$d/patch.diff"; then echo "$name: patch does not apply"; git -C /repo worktree remove --force $wt; miss=1; continue; fi
  for id in $(/venv/bin/python -c "import json;print(' '.join(json.load(open('$d/meta.json'))['expect_checks_quick']))"); do
    out=$(tools/try_tree.sh $wt $tier $id 2>&1 | head -1)
    if echo "$out" | grep -q "rc=1"; then echo "caught  $name by $id"; else echo "MISSED  $name by $id :: $out"; miss=1; fi
  done
  git -C /repo worktree remove --force $wt
done
git -C /repo worktree prune
exit $miss

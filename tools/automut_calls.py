#!/venv/bin/python
"""Development gate (not a registered check): fast mutation screen for the propagators.

Every single-site mutant (see tools/automut.py for the operators) of nucs/propagators/<name>_propagator.py is copied into a
scratch tree and a single interpreted child process runs the call-level monitor of C05/C06/C07/C14 (framework.props.calls)
over the same random streams the checks use (small, deep, wide, almost ground, stretched), a few thousand calls each. A mutant
that the screen kills is killed by the checks a fortiori (same oracle, same generators, >= 50x more calls); survivors are listed so
that they can be examined by hand (equivalent mutant / test-suite / full checks).

usage: tools/automut_calls.py [--names alldifferent,gcc,...] [--jobs 12] [--out /var/tmp/automut-calls.jsonl]
"""
import argparse
import json
import os
import shutil
import subprocess
import sys
import time
from concurrent.futures import ThreadPoolExecutor

sys.path.insert(0, os.path.dirname(os.path.abspath(__file__)))
import automut  # noqa: E402

VERIF = os.path.dirname(os.path.dirname(os.path.abspath(__file__)))
REPO = "/repo"
PY = "/venv/bin/python"

DRIVER = r'''
import json, sys
from framework.props import calls
name = sys.argv[1]
streams = [
    {"max_arity": 5, "width": 4, "allow_all_zero": True},
    {"max_arity": 6, "width": 3, "allow_all_zero": True, "big": True},
    {"max_arity": 8, "min_arity": 5, "width": 2, "base": 2, "allow_all_zero": True},
    {"max_arity": 12, "min_arity": 7, "width": 9, "base": 6, "allow_all_zero": True},
    {"max_arity": 14, "min_arity": 7, "width": 8, "base": 4, "allow_all_zero": True, "almost_ground": 3},
    {"max_arity": 7, "width": 3, "base": 3, "allow_all_zero": True, "stretch": True},
]
out = {"fails": {}, "evals": 0}
for k, o in enumerate(streams):
    if o.get("stretch"):
        from framework import gen
        if name not in gen.STRETCHABLE:
            continue
    if o.get("min_arity", 0) >= 7 and name in ("element_iv",):
        continue
    t = {"props": ["C05", "C06", "C07", "C14", "C04", "C16"], "names": [name], "kind": "random", "tier": "quick", "seed": 1000 + k,
         "count": int(sys.argv[2]), "opts": o, "points": 0.08, "deadline_s": 60,
         "hull_limit": 3000 if o.get("min_arity", 0) >= 7 and not o.get("almost_ground") else 20000}
    r = calls.run_calls(t)
    out["evals"] += r["evals"]
    for kk, v in r["fail_counts"].items():
        out["fails"][kk] = out["fails"].get(kk, 0) + v
    if out["fails"]:
        break
print("RESULT " + json.dumps(out))
'''


def run_one(idx, name, rel, site, root, count):
    fn, line, col, old, new, kind = site
    tree = os.path.join(root, "m%04d" % idx)
    res = {"idx": idx, "name": name, "file": rel, "func": fn, "line": line, "old": old, "new": new, "kind": kind}
    try:
        os.makedirs(tree)
        shutil.copytree(os.path.join(REPO, "nucs"), os.path.join(tree, "nucs"), ignore=shutil.ignore_patterns("__pycache__"))
        p = os.path.join(tree, rel)
        lines = open(p).read().split("\n")
        s = lines[line - 1]
        assert s[col:col + len(old)] == old
        res["src"] = s.strip()
        lines[line - 1] = s[:col] + new + s[col + len(old):]
        open(p, "w").write("\n".join(lines))
        env = dict(os.environ)
        env.update(PYTHONPATH=tree + os.pathsep + VERIF, NUMBA_DISABLE_JIT="1", NUCS_VERIF_MODE="interp", NUCS_VERIF_TREE=tree,
                   PYTHONDONTWRITEBYTECODE="1", PYTHONHASHSEED="0", PYTHONWARNINGS="ignore")
        t0 = time.time()
        try:
            pr = subprocess.run([PY, "-c", DRIVER, name, str(count)], env=env, cwd=VERIF, stdout=subprocess.PIPE,
                                stderr=subprocess.PIPE, text=True, timeout=900)
        except subprocess.TimeoutExpired:
            res["outcome"] = "killed"  # never returns: the checks' watchdog / line budget fire
            res["how"] = "timeout"
            return res
        res["s"] = round(time.time() - t0, 1)
        line_ = [x for x in pr.stdout.split("\n") if x.startswith("RESULT ")]
        if not line_:
            res["outcome"] = "killed"
            res["how"] = "crash: " + pr.stderr.strip().split("\n")[-1][:200]
            return res
        out = json.loads(line_[0][7:])
        res["evals"] = out["evals"]
        if out["fails"]:
            res["outcome"] = "killed"
            res["how"] = sorted(out["fails"])[:4]
        else:
            res["outcome"] = "SURVIVED"
        return res
    except Exception as e:
        res["outcome"] = "error"
        res["how"] = repr(e)
        return res
    finally:
        shutil.rmtree(tree, ignore_errors=True)


def main():
    ap = argparse.ArgumentParser()
    ap.add_argument("--names", default="")
    ap.add_argument("--jobs", type=int, default=8)
    ap.add_argument("--count", type=int, default=2500)
    ap.add_argument("--out", default="/var/tmp/automut-calls.jsonl")
    a = ap.parse_args()
    sys.path.insert(0, VERIF)
    from framework import oracles as O

    names = a.names.split(",") if a.names else [n for n in O.TYPES if n != "dummy"]
    todo = []
    for name in names:
        rel = "nucs/propagators/%s_propagator.py" % name
        for s in automut.sites(os.path.join(REPO, rel)):
            if s[0].startswith("get_triggers") or s[0].startswith("get_complexity"):
                continue
            todo.append((name, rel, s))
    root = "/var/tmp/automut-calls-%d" % os.getpid()
    os.makedirs(root, exist_ok=True)
    print("mutants:", len(todo), flush=True)
    surv = 0
    try:
        with ThreadPoolExecutor(a.jobs) as ex:
            futs = [ex.submit(run_one, i, n, rel, s, root, a.count) for i, (n, rel, s) in enumerate(todo)]
            for f in futs:
                r = f.result()
                with open(a.out, "a") as o:
                    o.write(json.dumps(r) + "\n")
                if r["outcome"] != "killed":
                    surv += 1
                    print(r["outcome"], r["file"].split("/")[-1], r["func"], r["line"], r["old"], "->", r["new"], "|",
                          r.get("src", "")[:100], r.get("how", ""), flush=True)
    finally:
        shutil.rmtree(root, ignore_errors=True)
    print("done: %d mutants, %d not killed" % (len(todo), surv))


if __name__ == "__main__":
    main()

#!/usr/bin/env python3
"""usage: tools/save_seed.py <worktree> <ID> <dir name> <needs> <caught ids, comma> [missed-before ids, comma] [round note]
Copies patch.diff, the demonstration and NOTES.md of a confirmed seeded change into /verif/seeded/<dir name>/ with meta.json."""
import json, os, shutil, subprocess, sys
wt, pid, name, needs, caught = sys.argv[1:6]
missed = sys.argv[6].split(",") if len(sys.argv) > 6 and sys.argv[6] else []
note = sys.argv[7] if len(sys.argv) > 7 else "round 6"
d = os.path.join(os.path.dirname(os.path.dirname(os.path.abspath(__file__))), "seeded", name)
os.makedirs(d, exist_ok=True)
diff = subprocess.run(["git", "-C", wt, "diff", "--", "nucs"], capture_output=True, text=True).stdout
assert diff.strip(), "no diff"
open(os.path.join(d, "patch.diff"), "w").write(diff)
shutil.copy(os.path.join(wt, "demo_%s.py" % pid), d)
if os.path.exists(os.path.join(wt, "NOTES.md")):
    shutil.copy(os.path.join(wt, "NOTES.md"), d)
base = subprocess.run(["git", "-C", wt, "rev-parse", "--short", "HEAD"], capture_output=True, text=True).stdout.strip()
meta = {"property": pid, "base_commit": base,
        "author": "independent sub-agent given only the property text, a focus area and the instruction that the change must need "
                  "something specific to manifest (%s)" % note,
        "needs_to_manifest": needs,
        "confirmed": {"test_suite_with_change": "192 passed", "demo_with_change": "exit 1", "demo_without_change": "exit 0",
                      "how": "tools/verify_seed.sh <worktree> %s" % pid},
        "checks_run": "tools/try_tree.sh <worktree> quick <ids>",
        "caught_by": caught.split(","), "missed_by_first_version": missed, "expect_checks_quick": caught.split(",")}
json.dump(meta, open(os.path.join(d, "meta.json"), "w"), indent=1)
print("saved", d)

#!/bin/bash
# usage: tools/sweep.sh <tier> <seed> [ids...]   - runs checks, prints one summary line each, exit 1 if any non-zero
cd "$(dirname "$0")/.." || exit 1
tier=$1; seed=$2; shift 2
ids=${@:-C01 C02 C03 C04 C05 C06 C07 C08 C09 C10 C11 C12 C13 C14 C15 C16 C17 C18 C19 C20}
./setup.sh >/dev/null 2>&1
bad=0
for id in $ids; do
  out=$(VERIF_SEED=$seed ./check $id --tier $tier 2>&1); rc=$?
  echo "seed=$seed rc=$rc $(echo "$out" | grep -E "^C[0-9]+ " | tail -1)"
  if [ $rc -ne 0 ]; then bad=1; echo "$out" | grep -E "VIOLATION|INCONCLUSIVE|witness" | cut -c1-600 | head -12; fi
done
exit $bad

"""Source of MANIFEST.json (run tools_manifest.py with python3-vt after editing)."""
HOOKS = {
    "guard": "NUCS_VERIF",
    "enable": "no source hooks are needed: monitors interpose on nucs' own registries and module globals from the harness (NUMBA_DISABLE_JIT=1), or observe at the API boundary / through the public register_* extension points in compiled mode; NUCS_VERIF=1 is exported to children but /repo does not read it",
    "baseline_off_cmd": "cd /repo && env -u NUCS_VERIF /venv/bin/python -m pytest -q -p no:cacheprovider --timeout=900",
    "source_commits": [],
    "add_only": True,
}
NOTES = ("Technique family: runtime monitoring. Every check observes executions of the real code in /repo's working tree "
         "(children are started with PYTHONPATH=/repo first and assert nucs.__file__ is under it; numba caches are keyed "
         "by a hash of nucs/**/*.py). Exit codes: 0 held, 1 violated (VIOLATION line), 2 inconclusive (deciding monitor "
         "not reached / child timed out; never folded into held). Known findings: known_findings.json.")
_PENDING = "check not built yet in this session (design in DESIGN.md section 6); not claimed until it exists and is silent on the unchanged tree"
CHECKS = {
    "C05": dict(level="exploration", ref="DESIGN.md section 6 C05",
                text="Every filtering call of an exhaustive small scope per constraint type (all boxes over a 3-5 value universe, parameter grids) plus seeded random boxes up to arity 6 in both execution modes is judged against an exhaustive hull oracle. Held means: no call among those executed lost a satisfying tuple, grew a domain or reported a false inconsistency. Exploration is the right level: the quantifier is over all boxes, which only sampling beyond the small scope can address at run time.",
                note="trusts O-sem (framework/oracles.py) as the reading of the documented relations and the parameter contract of DESIGN.md section 4; exhaustive only inside the listed scope",
                technique="runtime oracle on real propagator calls (exhaustive small scope + random), hull by enumeration"),
    "C06": dict(level="exploration", ref="DESIGN.md section 6 C06",
                text="All instantiated tuples over a small universe per type x parameter grid (exhaustive for arity <= 3-4) and every observed call that collapses a box to a point: status must be inconsistency iff the ground relation is false (circuit constraints on permutations only).",
                note="trusts O-sem; point scope exhaustive only for the listed arities/universes",
                technique="runtime oracle on real propagator calls over all ground tuples of a small scope + random collapse cases"),
    "C14": dict(level="exploration", ref="DESIGN.md section 6 C14",
                text="For the BC-documented types the output box of each executed call is compared for equality with the exhaustively computed bounds hull, inconsistency must coincide with emptiness, and a second consecutive call must change nothing; affine_eq is compared with an independent exact one-round interval computation.",
                note="trusts O-sem and the independent interval implementation; exhaustive only in the small scope",
                technique="runtime differential of real propagator output vs enumerated bounds hull"),
}
NOT_APPLICABLE = {p: _PENDING for p in ["C%02d" % i for i in range(1, 21)] if p not in CHECKS}

"""Source of MANIFEST.json (run tools_manifest.py with python3-vt after editing)."""
HOOKS = {
    "guard": "NUCS_VERIF",
    "enable": "no source hooks are needed: monitors interpose on nucs' own registries and module globals from the harness (NUMBA_DISABLE_JIT=1), or observe at the API boundary / through the public register_* extension points in compiled mode; NUCS_VERIF=1 is exported to children but /repo does not read it",
    "baseline_off_cmd": "cd /repo && env -u NUCS_VERIF /venv/bin/python -m pytest -q -p no:cacheprovider --timeout=900",
    "source_commits": [],
    "add_only": True,
}
NOTES = ("Technique family: runtime monitoring. Every check observes executions of the real code in /repo's working tree "
         "(children are started with PYTHONPATH=/repo first and assert nucs.__file__ is under it; numba caches are keyed "
         "by a hash of nucs/**/*.py). Exit codes: 0 held, 1 violated (VIOLATION line), 2 inconclusive (deciding monitor "
         "not reached / child timed out; never folded into held). Known findings: known_findings.json.")
_PENDING = "check not built yet in this session (design in DESIGN.md section 6); not claimed until it exists and is silent on the unchanged tree"
CHECKS = {
    "C05": dict(level="exploration", ref="DESIGN.md section 6 C05",
                text="Every filtering call of an exhaustive small scope per constraint type (all boxes over a 3-5 value universe, parameter grids) plus seeded random boxes up to arity 6 in both execution modes is judged against an exhaustive hull oracle. Held means: no call among those executed lost a satisfying tuple, grew a domain or reported a false inconsistency. Exploration is the right level: the quantifier is over all boxes, which only sampling beyond the small scope can address at run time. Boxes beyond the enumeration limit (arity <= 12, width <= 9) are judged by sampled forms of the same oracle (every report is a concrete tuple). A stretched stream maps the small shapes onto domains up to ~10^9 wide (gaps around 2^8/2^16/2^24/2^28, values within +-2^30) and is judged exactly by a width-independent hull oracle (breakpoint probing / bisection).",
                note="trusts O-sem (framework/oracles.py) as the reading of the documented relations and the parameter contract of DESIGN.md section 4; exhaustive only inside the listed scope",
                technique="runtime oracle on real propagator calls (exhaustive small scope + random), hull by enumeration"),
    "C06": dict(level="exploration", ref="DESIGN.md section 6 C06",
                text="All instantiated tuples over a small universe per type x parameter grid (exhaustive for arity <= 3-4) and every observed call that collapses a box to a point: status must be inconsistency iff the ground relation is false (circuit constraints on permutations only). Through the engine on large planted models: with every variable fixed the satisfying point is delivered and a violating neighbour is not. Parameters include the unsatisfiable but well-formed ones: counts outside 0..n, a gcc lower bound above its capacity, linear constants out of reach.",
                note="trusts O-sem; point scope exhaustive only for the listed arities/universes",
                technique="runtime oracle on real propagator calls over all ground tuples of a small scope + random collapse cases"),
    "C14": dict(level="exploration", ref="DESIGN.md section 6 C14",
                text="For the BC-documented types the output box of each executed call is compared for equality with the exhaustively computed bounds hull, inconsistency must coincide with emptiness, and a second consecutive call must change nothing; affine_eq is compared with an independent exact one-round interval computation. Beyond the enumeration limit (arity <= 14, domains up to ~10^9 wide) the hull comes from an enumeration-free support oracle that is cross-checked against the enumerating one wherever both apply.",
                note="trusts O-sem and the independent interval implementation; exhaustive only in the small scope",
                technique="runtime differential of real propagator output vs enumerated bounds hull"),
}
NOT_APPLICABLE = {p: _PENDING for p in ["C%02d" % i for i in range(1, 21)] if p not in CHECKS}

CHECKS.update({
    "C01": dict(level="exploration", ref="DESIGN.md section 6 C01",
                text="Every vector yielded or returned by the real solvers on thousands of random in-contract models x configurations (both modes, constraint types also posted alone, the multiprocessing solver through real forked workers) is checked in full against the declared domains, the alias offsets and the ground semantics of every posted constraint. Beyond the brute-force scope, large models built around a planted assignment (8-40 variables, arity <= 14, compiled mode under a logical pass budget) are solved and every delivered vector checked the same way.",
                note="trusts O-sem and the parameter contract; models small (<= 6000/20000 points) so that the same runs also feed C02/C03",
                technique="runtime checker at the solver API boundary evaluating every returned solution against independent ground semantics"),
    "C02": dict(level="exploration", ref="DESIGN.md section 6 C02",
                text="The multiset of solutions yielded by exhaustive enumeration on the real solver is compared with an independent brute-force enumeration for random models x random configurations x constraint permutations in both modes; termination is decided by logical step budgets on plane A. Beyond the brute-force scope, large planted models partially fixed to the planted assignment must deliver it in every completed enumeration, without duplicates.",
                note="trusts O-brute/O-sem; models limited to <= 6000/20000 points",
                technique="differential runtime oracle: real enumeration vs brute-force enumeration of the domain product"),
    "C03": dict(level="exploration", ref="DESIGN.md section 6 C03",
                text="minimize/maximize results on random models (objective with/without constraints, with/without offset, both directions) are compared with the brute-force optimum; a history monitor inside the interpreted engine checks the improve/reset/tighten protocol; the multiprocessing reducer is run against all interleavings of real worker streams (shim) and real processes. On large planted models a completed optimisation must be valid and at least as good as the planted assignment.",
                note="trusts O-brute; restart budget = objective width + 3",
                technique="differential oracle on results + online history monitor on hooked restart/tighten events"),
    "C04": dict(level="exploration", ref="DESIGN.md section 6 C04",
                text="Termination restated as bounded progress: monitors inside the interpreted engine count constraint executions per pass, executed lines per propagator call (sys.monitoring), choices, backtracks, probes and restarts against combinatorial bounds and raise out of the engine when exceeded; compiled runs are watched by a parent-side stall watchdog whose firing is replayed under the budgets rather than taken as a verdict. Single filtering calls of every type on random boxes up to arity 12 run under the same line budget (interpreted) and watchdog (compiled).",
                note="no finite run decides an unbounded 'eventually'; budgets carry a x4 safety factor; exploration over random models",
                technique="runtime step-budget monitors (logical, not wall-clock) inside the real engine"),
    "C07": dict(level="exploration", ref="DESIGN.md section 6 C07",
                text="Every entailment answer observed (exhaustive small scope + random boxes, 12 types) is validated by enumerating the returned box; in real searches a flag monitor checks copy-on-push, exact restore on pop and that flags are cleared only by an entailment answer of that constraint; a differential run with entailment downgraded must give the same solutions. Entailment answers on boxes beyond the enumeration limit are attacked by sampled and corner tuples.",
                note="trusts O-sem; boxes > 20000 points are skipped and counted as such",
                technique="runtime oracle on entailment answers + stack-row invariant monitor + metamorphic downgrade run"),
    "C08": dict(level="exploration", ref="DESIGN.md section 6 C08",
                text="Around every propagation pass of real searches (interpreted): shrink/non-empty invariants, re-execution of every enabled constraint through the real propagator, comparison with an independent greatest-fixpoint computation for exact-BC models, under the real and 3-5 injected adversarial wake-up orders; plus a direct trigger-sufficiency test per constraint type. The event x watcher matrix also moves bounds through the shaving algorithm (a gadget that only a probe refutes); a compiled in-engine probe re-executes every constraint after every pass, also on large planted models (arity <= 14).",
                note="schedule space sampled; O-fix only for small domains; order independence asserted only for exact-BC models",
                technique="invariant-at-hook monitor on every pass + schedule injection at the queue pop + reference fixpoint"),
    "C09": dict(level="exploration", ref="DESIGN.md section 6 C09",
                text="All five value heuristics are called directly on hand-built stacks for every [a,b] with a in [-5,5], width 1..8 at random levels (both modes) and their partition / untouched-state / announced-events postcondition checked, then backtrack() is driven and every restore compared bit for bit; the same assertions run around every decision and backtrack of real interpreted searches. The unit harness also places the domains far from zero (bounds adding up beyond 32 bits, widths up to 70001). Cost tables include rows of free moves (several or only zero costs).",
                note="unit scope exhaustive for the listed shapes; in-search part sampled",
                technique="pre/post-condition monitors on heuristic calls and backtracks (unit harness + in-search hooks)"),
    "C10": dict(level="exploration", ref="DESIGN.md section 6 C10",
                text="Around every call of the shaving algorithm in real searches: stack height, shrink, containment in what the real plain BC returns from the same entry state, no brute-force solution removed; every successful probe re-derived independently, every failed probe undone exactly; solver-level results equal brute force. The same probes and the planted-assignment completeness test run with shaving on large models.",
                note="reference BC is the real BC run on private copies; solutions from O-brute",
                technique="invariant-at-hook monitor with reference-model comparison (real BC / brute force)"),
    "C17": dict(level="exploration", ref="DESIGN.md section 6 C17",
                text="Each of the 13 counters is compared with the monitor's own count of its defining event at every delivered solution and at the end of enumeration and optimisation runs (interpreted); conservation laws are checked in both modes; multiprocessing totals against per-worker sums under all interleavings. The laws are also checked on large compiled models.",
                note="exactness in compiled mode is inherited through C15 (identical statistics in both modes)",
                technique="shadow counters on hooked events compared with reported statistics + conservation laws"),
})
for _k in list(CHECKS):
    NOT_APPLICABLE.pop(_k, None)

CHECKS.update({
    "C11": dict(level="exploration", ref="DESIGN.md section 6 C11",
                text="The real reducer is run against every interleaving of the real workers' message streams (complete enumeration whenever there are <= 5000, adversarial corners + 400 seeded ones otherwise), under two legal statistics payloads, and compared with the sequential solver: multiset, optimum, None iff infeasible, queue drained at return, aggregated statistics; real forked workers with injected delays confirm the shim. Histories of several calls on ONE solver object (enumerate twice, optimise then enumerate, an abandoned enumeration then a full one) must each answer like a first call, in the shim and with real processes.",
                note="assumes per-producer FIFO of multiprocessing.Queue; OS schedules are sampled; exhaustive only per case, as reported in evidence",
                technique="schedule shim enumerating message interleavings against the real reducer + delay injection on real processes"),
    "C12": dict(level="exploration", ref="DESIGN.md section 6 C12",
                text="A post-condition wrapper on the real Problem.split is run exhaustively over a in [-4,4], size 1..9, k 1..size+3, own/alias variable (original unchanged, parts differ only in that domain, ranges partition [a,b]); on random models every part is enumerated on the real solver and the union compared with brute force.",
                note="interval arithmetic exhaustive in the stated scope; solution-set part sampled",
                technique="post-condition monitor on split (exhaustive small scope) + differential union check"),
    "C13": dict(level="exploration", ref="DESIGN.md section 6 C13",
                text="Metamorphic relations (de-aliasing, constraint/variable permutation, duplicated constraint, always-true constraint, translation) are checked between real solver runs on random models in both modes and on the shipped models at sizes far beyond brute force. Rewrites include permuting the arguments of order-insensitive constraints; a focus stream posts one shared domain at several positions of the same constraint.",
                note="relations need no oracle; cost-based heuristics replaced by generic ones in rewritten models",
                technique="metamorphic runtime monitor comparing solution multisets and optima of rewritten models"),
    "C18": dict(level="fault_enumeration", ref="DESIGN.md section 6 C18",
                text="The fault space worker x number of workers (1-4) x death point (before first message, before/after each solution message, before the completion marker) x manner (SIGKILL, os._exit, exception) x operation is enumerated on two small models with real forked workers; a structural oracle (no producer alive and caller inside Queue.get(timeout=None), or 60 s without return after the last death) decides 'blocked forever'. Quick runs a seeded subset of 128 cases, thorough all 1080. A second grid kills a worker, lets a survivor's message arrive after the death and keeps all survivors alive and silent for 70 s: the caller must return or raise within 25 s of the death. A third grid SIGKILLs a worker while the consumer is slow (full pipe), with solution messages below and far above PIPE_BUF, choosing the worker whose feeder thread is blocked in write(2) or the one waiting for the queue's lock; the partial-message hang it reproduces is open finding F20.",
                note="complete for the small models used, not for all problems; crash points are made well defined by flushing the worker's feeder thread first",
                technique="fault injection at enumerated crash points in real worker processes + structural deadlock oracle"),
    "C20": dict(level="exploration", ref="DESIGN.md section 6 C20",
                text="Each of the 14 shipped model families is solved over a size sweep and several configurations in compiled mode; every solution goes through an independent definition-level validator, counts and optima are compared with literature values or own enumerations (Held-Karp, subset DP, ruler search, sum-free colourings, backtracking sudoku), and symmetry-breaking variants are related to the plain models. Completeness at definition level: symmetric images (relabelling, dihedral, row/column/box permutations) of delivered solutions that the validator accepts must be delivered by the model without symmetry breaking, and are accepted when presented ground. The Golomb model's own consistency algorithm also runs under non-default search orders (decision domains = marks, reversed) x every heuristic pair. Tournaments of 8 (10) teams: the first 60 schedules under several strategies, with and without symmetry breaking.",
                note="validators know each model's variable layout; literature constants listed in evidence assumptions",
                technique="definition-level validators and independent reference solvers applied to every produced object"),
})
for _k in list(CHECKS):
    NOT_APPLICABLE.pop(_k, None)

CHECKS.update({
    "C19": dict(level="exploration", ref="DESIGN.md section 6 C19",
                text="A sweep over 15 stack heights x search depths height-3..height+3 x 4 value heuristics x BC/shaving with red-zone canaries around every stack, and over problem sizes around the uint8/uint16 index types (arity, parameters, shared domains, propagator types); silent wrong answers, written guard rows, a stack pointer going backwards, a crash, or a refusal strictly inside the capacity are violations. The same verdict applies to the multiprocessing solver when one worker's sub-problem needs more stack than configured: the call must raise or be right, never answer from the surviving workers alone.",
                note="the statement does not say whether height h admits h or h-1 pushes: the two boundary depths are a tolerance band; canaries see writes into the 12 guard rows only",
                technique="red-zone canaries on the engine's stacks + analytically known answers over a capacity sweep"),
})
for _k in list(CHECKS):
    NOT_APPLICABLE.pop(_k, None)

CHECKS.update({
    "C15": dict(level="exploration", ref="DESIGN.md section 6 C15",
                text="Canonical traces (solution sequence + 13 statistics) of a deterministic case list are produced in five fresh processes per batch - compiled twice, interpreted, and both modes after a random history of earlier solver use (abandoned and suspended solvers, optimisations, registrations, reuse and split of the same problem object) - and must be identical case by case; the problem's observable fields must survive solver construction. The case list includes models whose values lie far from zero (10^6, 2^30, 1.5*10^9), where the two modes compute on different integer types.",
                note="only differences visible in outputs or statistics are seen; each axis is a separate child process because the mode is read at import time",
                technique="trace recorder at the API boundary + cross-process/mode/history trace comparison"),
    "C16": dict(level="exploration", ref="DESIGN.md section 6 C16",
                text="In-contract workloads run under a source-level bounds sanitizer (import hook rewriting every non-literal subscript of nucs, 643 sites, flags out-of-range, computed negative and clamped-slice indices), under numba's bounds-check build with an unraisable-exception hook that halts on the first report, and with red-zone canaries around the stacks; the evidence lists reached / instrumented sites and the unreached ones. Large planted models (arity <= 14) run in the bounds-check build. A quarter of the direct calls use domains up to ~10^9 wide / value ranges far from zero (narrow scratch arrays, 16-bit offsets). A fifth of the models restrict the decision domains to a proper subset (the search may stop or refuse, never index with 'no domain').",
                note="a clean run is not memory safety: only reached sites with the index values that occurred; compiled-mode negative wrap-around is inferred from the interpreted sanitizer on the same source",
                technique="bounds sanitizers: AST-instrumented interpretation + NUMBA_BOUNDSCHECK build + red-zone canaries"),
})
for _k in list(CHECKS):
    NOT_APPLICABLE.pop(_k, None)

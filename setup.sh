#!/bin/bash
# Offline setup: create work directories, byte-check the framework, warm the numba cache of the current tree.
cd "$(dirname "$0")"
mkdir -p .work evidence replays
/venv/bin/python -m compileall -q framework >/dev/null || exit 1
/venv/bin/python - <<'PY'
from framework import common
import sys
w = common.warm_cache("jit")
print("jit cache warm-up: %.1fs" % w)
sys.exit(0 if w >= 0 else 1)
PY
/venv/bin/python - <<'PY'
from framework import common
import sys
w = common.warm_cache("bc", timeout=1500)
print("bounds-check cache warm-up: %.1fs" % w)
sys.exit(0 if w >= 0 else 1)
PY

#!/bin/bash
# Offline setup: create work directories, byte-check the framework, warm the numba caches of the current tree
# (compiled mode and bounds-check build). Nothing is fetched; nothing outside /verif/.work is written.
cd "$(dirname "$0")" || exit 1
mkdir -p .work evidence replays
/venv/bin/python -m compileall -q framework >/dev/null || exit 1
/venv/bin/python - <<'PY' || exit 1
from framework import common
import sys
for mode in ("jit", "bc"):
    w = common.warm_cache(mode, timeout=1500)
    print("%s cache warm-up: %.1fs" % (mode, w))
    if w < 0:
        sys.exit(1)
PY
exit 0
